(* Sheet core model (M) and grid specification (S), shared by C01-C04, C06, C17.
   Follows sheet.go:prepareSheetXML/fillColumns/trimRow/trimCell/workSheetWriter,
   excelize.go:checkSheet (for ascending rows)/rows.go:checkRow, cell.go:prepareCell/
   prepareCellStyle/mergeCellsParser/getCellStringFunc/set*/removeFormula, merge.go:MergeCell. *)
From VF Require Import Base.Prelude Generated.Consts.

(* ---------- M: what excelize keeps ---------- *)
Record cell := mkCell {
  c_col : Z; c_row : Z;          (* the r attribute as coordinates *)
  c_s : Z;                       (* style id *)
  c_t : Z;                       (* 0 "" | 1 b | 2 s | 3 str | 4 inlineStr | 5 d | 6 e | 7 n *)
  c_v : bytes;                   (* value text (shared strings abstracted to their text) *)
  c_f : option bytes }.          (* formula *)

Record row := mkRow {
  r_r : Z;
  r_cells : list cell;
  r_s : Z;                       (* row style *)
  r_ht : option Z;               (* custom height (opaque) *)
  r_hidden : bool }.

Definition rect := (Z * Z * Z * Z)%type.    (* col1,row1,col2,row2, sorted *)

Record sheet := mkSheet {
  rows : list row;
  cols : list (Z * Z * Z);       (* min, max, style *)
  merges : list rect }.

Definition empty_sheet : sheet := mkSheet [] [] [].

Definition is_nil (l : bytes) : bool := match l with [] => true | _ => false end.
Definition filler (col rw : Z) : cell := mkCell col rw 0 0 [] None.
Definition has_value (c : cell) : bool :=
  negb (c_s c =? 0) || negb (is_nil (c_v c)) || (match c_f c with Some _ => true | None => false end) || negb (c_t c =? 0).
Definition row_has_attr (r : row) : bool :=
  negb (r_s r =? 0) || (match r_ht r with Some _ => true | None => false end) || r_hidden r.

(* list update at a position (Go: *p = ... through &slice[i]) *)
Fixpoint upd {A} (l : list A) (n : nat) (f : A -> A) : list A :=
  match l, n with
  | [], _ => []
  | x :: r, O => f x :: r
  | x :: r, S k => x :: upd r k f
  end.

(* sheet.go:prepareSheetXML *)
Fixpoint new_rows (k : nat) (next : Z) : list row :=
  match k with O => [] | S k' => mkRow next [] 0 None false :: new_rows k' (next + 1) end.
Fixpoint fillers (k : nat) (col rw : Z) : list cell :=
  match k with O => [] | S k' => filler col rw :: fillers k' (col + 1) rw end.
Definition fill_columns (col rw : Z) (r : row) : row :=
  let n := Z.of_nat (length (r_cells r)) in
  if n <? col then mkRow (r_r r) (r_cells r ++ fillers (Z.to_nat (col - n)) (n + 1) rw) (r_s r) (r_ht r) (r_hidden r)
  else r.
Definition prepare_sheet_xml (col rw : Z) (sh : sheet) : sheet :=
  let n := Z.of_nat (length (rows sh)) in
  let rs := if n <? rw then rows sh ++ new_rows (Z.to_nat (rw - n)) (n + 1) else rows sh in
  mkSheet (upd rs (Z.to_nat (rw - 1)) (fill_columns col rw)) (cols sh) (merges sh).

Definition upd_cell (col rw : Z) (f : cell -> cell) (sh : sheet) : sheet :=
  mkSheet (upd (rows sh) (Z.to_nat (rw - 1))
             (fun r => mkRow (r_r r) (upd (r_cells r) (Z.to_nat (col - 1)) f) (r_s r) (r_ht r) (r_hidden r)))
          (cols sh) (merges sh).

(* cell.go:mergeCellsParser — first merged range containing the cell redirects to its top-left *)
Definition in_rect (col rw : Z) (r : rect) : bool :=
  let '(c1, r1, c2, r2) := r in (c1 <=? col) && (col <=? c2) && (r1 <=? rw) && (rw <=? r2).
Fixpoint anchor (ms : list rect) (col rw : Z) : Z * Z :=
  match ms with
  | [] => (col, rw)
  | r :: rest => if in_rect col rw r then (let '(c1, r1, _, _) := r in (c1, r1)) else anchor rest col rw
  end.

(* cell.go:prepareCellStyle *)
Fixpoint col_style (cs : list (Z * Z * Z)) (col : Z) : Z :=
  match cs with
  | [] => 0
  | (mn, mx, st) :: rest => if (mn <=? col) && (col <=? mx) && negb (st =? 0) then st else col_style rest col
  end.
Definition row_style (sh : sheet) (rw : Z) : Z :=
  match nth_error (rows sh) (Z.to_nat (rw - 1)) with Some r => r_s r | None => 0 end.
Definition prepare_cell_style (sh : sheet) (col rw style : Z) : Z :=
  if negb (style =? 0) then style
  else let rs := row_style sh rw in
       if negb (rs =? 0) then rs else col_style (cols sh) col.

(* all value setters: prepareCell; c.S = prepareCellStyle; c.T, c.V = ...; removeFormula *)
Definition set_value (col0 rw0 t : Z) (v : bytes) (sh : sheet) : sheet :=
  let '(col, rw) := anchor (merges sh) col0 rw0 in
  let sh1 := prepare_sheet_xml col rw sh in
  upd_cell col rw (fun c => mkCell (c_col c) (c_row c) (prepare_cell_style sh1 col rw (c_s c)) t v None) sh1.

(* cell.go:SetCellFormula (plain formula): c.F = &xlsxF{Content: formula}; c.T = "str"; the cached value of a
   shared string cell (an index) is dropped; an empty formula removes the formula *)
Definition set_formula (col0 rw0 : Z) (f : bytes) (sh : sheet) : sheet :=
  let '(col, rw) := anchor (merges sh) col0 rw0 in
  let sh1 := prepare_sheet_xml col rw sh in
  upd_cell col rw (fun c => if is_nil f then mkCell (c_col c) (c_row c) (c_s c) (c_t c) (c_v c) None
                            else mkCell (c_col c) (c_row c) (c_s c) 3 (if c_t c =? 2 then [] else c_v c) (Some f)) sh1.

(* styles.go:SetCellStyle on a single cell (no merge redirect: works on coordinates) *)
Definition set_style (col rw s : Z) (sh : sheet) : sheet :=
  let sh1 := prepare_sheet_xml col rw sh in
  upd_cell col rw (fun c => mkCell (c_col c) (c_row c) s (c_t c) (c_v c) (c_f c)) sh1.

(* rows.go:SetRowStyle: row attribute + every existing cell of the row (prepareSheetXML(0, row): the row is
   created, no cell is) *)
Definition set_row_style (rw s : Z) (sh : sheet) : sheet :=
  let sh1 := prepare_sheet_xml 0 rw sh in
  mkSheet (upd (rows sh1) (Z.to_nat (rw - 1))
             (fun r => mkRow (r_r r) (map (fun c => mkCell (c_col c) (c_row c) s (c_t c) (c_v c) (c_f c)) (r_cells r)) s (r_ht r) (r_hidden r)))
          (cols sh1) (merges sh1).

(* col.go:SetColStyle on one column: replace the column definition, then SetCellStyle on the column's cell
   in every existing row *)
Fixpoint set_style_rows (col s : Z) (k : nat) (rw : Z) (sh : sheet) : sheet :=
  match k with O => sh | S k' => set_style_rows col s k' (rw + 1) (set_style col rw s sh) end.
Definition set_col_style (col s : Z) (sh : sheet) : sheet :=
  let cs := (col, col, s) :: filter (fun e => let '(mn, mx, _) := e in negb ((mn =? col) && (mx =? col))) (cols sh) in
  set_style_rows col s (length (rows sh)) 1 (mkSheet (rows sh) cs (merges sh)).

(* merge.go:MergeCell: clear every covered cell except the top-left one, then append the range *)
Fixpoint clear_cells (cells : list (Z * Z)) (sh : sheet) : sheet :=
  match cells with
  | [] => sh
  | (col, rw) :: rest =>
    let sh1 := prepare_sheet_xml col rw sh in
    clear_cells rest (upd_cell col rw (fun c => mkCell (c_col c) (c_row c) (c_s c) 0 [] None) sh1)
  end.
Fixpoint zseq (lo : Z) (n : nat) : list Z := match n with O => [] | S k => lo :: zseq (lo + 1) k end.
Definition rect_cells (r : rect) : list (Z * Z) :=
  let '(c1, r1, c2, r2) := r in
  flat_map (fun col => map (fun rw => (col, rw)) (zseq r1 (Z.to_nat (r2 - r1 + 1)))) (zseq c1 (Z.to_nat (c2 - c1 + 1))).
Definition merge_cell (r : rect) (sh : sheet) : sheet :=
  let '(c1, r1, c2, r2) := r in
  let covered := filter (fun p => negb ((fst p =? c1) && (snd p =? r1))) (rect_cells r) in
  let sh1 := clear_cells covered sh in
  mkSheet (rows sh1) (cols sh1) (merges sh1 ++ [r]).

(* cell.go:getCellStringFunc: locate the cell by row number, then by reference *)
Fixpoint find_cell (cells : list cell) (col rw : Z) : option cell :=
  match cells with
  | [] => None
  | c :: rest => if (c_col c =? col) && (c_row c =? rw) then Some c else find_cell rest col rw
  end.
Fixpoint find_in_rows (rs : list row) (col rw : Z) : option cell :=
  match rs with
  | [] => None
  | r :: rest => if r_r r =? rw
                 then match find_cell (r_cells r) col rw with
                      | Some c => Some c
                      | None => find_in_rows rest col rw
                      end
                 else find_in_rows rest col rw
  end.
Definition last_row_num (rs : list row) : Z := match rev rs with r :: _ => r_r r | [] => 0 end.
Definition get_cell (sh : sheet) (col0 rw0 : Z) : option cell :=
  let '(col, rw) := anchor (merges sh) col0 rw0 in
  if rw >? last_row_num (rows sh) then None else find_in_rows (rows sh) col rw.

(* what a getter can observe of a cell: type, value, formula, style *)
Definition obs := (Z * bytes * option bytes * Z)%type.
Definition empty_obs : obs := (0, [], None, 0).
Definition obs_of (oc : option cell) : obs :=
  match oc with Some c => (c_t c, c_v c, c_f c, c_s c) | None => empty_obs end.
Definition observe (sh : sheet) (col rw : Z) : obs := obs_of (get_cell sh col rw).

(* styles.go:GetCellStyle: the explicit style of the cell if any, else the row's, else the column's (no merge redirect) *)
Definition get_cell_style (sh : sheet) (col rw : Z) : Z :=
  let s := match nth_error (rows sh) (Z.to_nat (rw - 1)) with
           | Some r => match nth_error (r_cells r) (Z.to_nat (col - 1)) with Some c => c_s c | None => 0 end
           | None => 0
           end in
  prepare_cell_style sh col rw s.

(* ---------- save / open ---------- *)
Definition is_nil_cells (l : list cell) : bool := match l with [] => true | _ => false end.

(* sheet.go:trimCell, trimRow (row slots are kept; an empty row without attributes keeps its filler cells) *)
Definition trim_cell (r : row) : row := mkRow (r_r r) (filter has_value (r_cells r)) (r_s r) (r_ht r) (r_hidden r).
Definition trim_row (r : row) : row :=
  let t := trim_cell r in
  if negb (is_nil_cells (r_cells t)) || row_has_attr t then t else r.

(* rows.go:checkRow on a row whose cells all carry r attributes: rebuild the contiguous cell list *)
Fixpoint place (src : list cell) (target : list cell) : list cell :=
  match src with
  | [] => target
  | c :: rest => place rest (upd target (Z.to_nat (c_col c - 1)) (fun _ => c))
  end.
Definition densify_row (idx : Z) (r : row) : row :=
  match rev (r_cells r) with
  | [] => r
  | lc :: _ =>
    let lastCol := c_col lc in
    if Z.of_nat (length (r_cells r)) <? lastCol
    then mkRow (r_r r) (place (r_cells r) (fillers (Z.to_nat lastCol) 1 idx)) (r_s r) (r_ht r) (r_hidden r)
    else r
  end.
Fixpoint densify_rows (idx : Z) (rs : list row) : list row :=
  match rs with [] => [] | r :: rest => densify_row idx r :: densify_rows (idx + 1) rest end.

(* the serialised sheet (structured): what workSheetWriter encodes *)
Definition xml_rows (sh : sheet) : list row := map trim_row (rows sh).
(* sheet.go:workSheetWriter + excelize.go:workSheetReader: after a save the cached sheet is either evicted and
   decoded again on next use (checked sheets) or re-densified in place (sheets created in the session) *)
Definition save (sh : sheet) : sheet := mkSheet (densify_rows 1 (xml_rows sh)) (cols sh) (merges sh).

(* rows.go:Rows/Columns/rowXMLHandler over the serialised rows: a cell is emitted when its value is
   non-empty or it has a formula; gaps are padded (appendSpace); GetRows drops trailing empty rows *)
Definition pad {A} (n : nat) (x : A) (l : list A) : list A :=   (* extend l with x up to length n *)
  l ++ repeat x (n - length l).
Definition row_values (value_of : cell -> bytes) (r : row) : list bytes :=
  fold_left (fun acc c =>
    let v := value_of c in
    if negb (is_nil v) || (match c_f c with Some _ => true | None => false end)
    then pad (Z.to_nat (c_col c - 1)) [] acc ++ [v] else acc) (r_cells r) [].
Fixpoint drop_trailing_empty (l : list (list bytes)) : list (list bytes) :=
  match l with
  | [] => []
  | x :: rest => match drop_trailing_empty rest with
                 | [] => (match x with [] => [] | _ => [x] end)
                 | r' => x :: r'
                 end
  end.
(* col.go:Cols / Cols.Rows / GetCols.  Cols marshals the cached worksheet as it stands (no trimming): every cell of
   every row is a <c> element.  For column c (0-based here) the iterator walks the rows; at every cell element it pads
   the result with "" up to the row before the current one, and at the cell of column c it appends that cell's value
   unless it is empty (after fix d3b3ff2: an empty cell is left to later padding, so the result does not depend on
   whether empty cells are still in the worksheet or have been trimmed by a save): a row without cells adds nothing,
   a row whose cells stop before column c only causes the padding. *)
Fixpoint col_fold (value_of : cell -> bytes) (c : nat) (rs : list row) (k : nat) (acc : list bytes) : list bytes :=
  match rs with
  | [] => acc
  | r :: rest =>
    let acc' := match r_cells r with
                | [] => acc
                | _ => let a1 := acc ++ repeat [] (k - length acc) in
                       match nth_error (r_cells r) c with
                       | Some cl => if is_nil (value_of cl) then a1 else a1 ++ [value_of cl]
                       | None => a1
                       end
                end in
    col_fold value_of c rest (S k) acc'
  end.
(* the number of columns is the highest column of a cell with content (a <v>, <f> or <is> child), after fix 874bc46 *)
(* a shared string cell always has a <v> (the index), an inline string cell an <is>, also when the text is empty *)
Definition has_content (c : cell) : bool :=
  negb (is_nil (c_v c)) || (match c_f c with Some _ => true | None => false end) || (c_t c =? 2) || (c_t c =? 4).
Fixpoint last_content (cs : list cell) (i : nat) : nat :=
  match cs with [] => 0%nat | c :: rest => Nat.max (if has_content c then S i else 0%nat) (last_content rest (S i)) end.
Definition total_cols (sh : sheet) : nat := fold_left (fun m r => Nat.max m (last_content (r_cells r) 0)) (rows sh) 0%nat.
(* trailing empty values of a column are dropped (fix 1st of the Cols repairs: how far a column is padded depends on
   empty cells that a save trims) *)
Fixpoint drop_trailing_nil (l : list bytes) : list bytes :=
  match l with
  | [] => []
  | x :: rest => match drop_trailing_nil rest with
                 | [] => if is_nil x then [] else [x]
                 | r => x :: r
                 end
  end.
Definition get_cols (value_of : cell -> bytes) (sh : sheet) : list (list bytes) :=
  map (fun c => drop_trailing_nil (col_fold value_of c (rows sh) 0 [])) (seq 0 (total_cols sh)).

Definition get_rows (value_of : cell -> bytes) (sh : sheet) : list (list bytes) :=
  drop_trailing_empty (map (row_values value_of) (xml_rows sh)).

(* ---------- S: the grid the user may rely on ---------- *)
Definition grid := Z -> Z -> obs.
Definition abs (sh : sheet) : grid := fun col rw =>
  match nth_error (rows sh) (Z.to_nat (rw - 1)) with
  | Some r => match nth_error (r_cells r) (Z.to_nat (col - 1)) with
              | Some c => (c_t c, c_v c, c_f c, c_s c)
              | None => empty_obs
              end
  | None => empty_obs
  end.
Definition grid_set (g : grid) (col rw : Z) (o : obs) : grid :=
  fun col' rw' => if (col' =? col) && (rw' =? rw) then o else g col' rw'.

(* reachable-state invariant (Dense): row r sits at index r-1 with R = r; cell c of a row, when
   present, sits at index c-1 with reference (c, r) *)
Definition cells_dense (rw : Z) (cells : list cell) : Prop :=
  forall j c, nth_error cells j = Some c -> c_col c = Z.of_nat j + 1 /\ c_row c = rw.
Definition Inv (sh : sheet) : Prop :=
  forall i r, nth_error (rows sh) i = Some r -> r_r r = Z.of_nat i + 1 /\ cells_dense (Z.of_nat i + 1) (r_cells r).

(* ---------- histories ---------- *)
Inductive op :=
| OSet (col rw t : Z) (v : bytes)
| OFormula (col rw : Z) (f : bytes)
| OStyle (col rw s : Z)
| ORowStyle (rw s : Z)
| OColStyle (col s : Z)
| OMerge (c1 r1 c2 r2 : Z)
| OSave.

Definition step (sh : sheet) (o : op) : sheet :=
  match o with
  | OSet col rw t v => set_value col rw t v sh
  | OFormula col rw f => set_formula col rw f sh
  | OStyle col rw s => set_style col rw s sh
  | ORowStyle rw s => set_row_style rw s sh
  | OColStyle col s => set_col_style col s sh
  | OMerge c1 r1 c2 r2 => merge_cell (c1, r1, c2, r2) sh
  | OSave => save sh
  end.
Definition run (ops : list op) (sh : sheet) : sheet := fold_left step ops sh.
Definition op_ok (o : op) : Prop :=
  match o with
  | OSet col rw _ _ | OFormula col rw _ | OStyle col rw _ => 1 <= col /\ 1 <= rw
  | ORowStyle rw _ => 1 <= rw
  | OColStyle col _ => 1 <= col
  | OMerge c1 r1 c2 r2 => 1 <= c1 <= c2 /\ 1 <= r1 <= r2
  | OSave => True
  end.
