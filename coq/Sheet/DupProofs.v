(* C06: DuplicateRowTo places a copy of the source row at the target and moves everything from the target on down by one. *)
From VF Require Import Base.Prelude Generated.Consts Sheet.Model Sheet.Proofs Sheet.Adjust Sheet.AdjustProofs.
From Coq Require Import ZifyBool ZifyNat.

Lemma shift_down_cell_at rw n sh c r : 1 <= rw -> 0 <= n -> 1 <= c -> 1 <= r ->
  cell_at (shift_down rw n sh) c r =
  if r <? rw then cell_at sh c r
  else if r <? rw + n then None
  else option_map (shift_cell 0 n) (cell_at sh c (r - n)).
Proof.
  intros Hrw Hn Hc Hr. unfold shift_down, cell_at. cbn [rows].
  set (len := Z.of_nat (length (rows sh))).
  destruct (Z.leb_spec rw len) as [Hle|Hgt].
  - rewrite (nth_error_splice (shift_row n)) by (unfold len in *; lia).
    rewrite new_rows_length.
    destruct (Z.ltb_spec r rw) as [H1|H1].
    + destruct (Nat.ltb_spec (Z.to_nat (r - 1)) (Z.to_nat (rw - 1))); [reflexivity|lia].
    + destruct (Nat.ltb_spec (Z.to_nat (r - 1)) (Z.to_nat (rw - 1))); [lia|].
      destruct (Z.ltb_spec r (rw + n)) as [H2|H2].
      * destruct (Nat.ltb_spec (Z.to_nat (r - 1)) (Z.to_nat (rw - 1) + Z.to_nat n)); [|lia].
        rewrite nth_error_new_rows. destruct (Nat.ltb_spec (Z.to_nat (r - 1) - Z.to_nat (rw - 1)) (Z.to_nat n)); [|lia].
        cbn [r_cells]. now rewrite nth_error_nil.
      * destruct (Nat.ltb_spec (Z.to_nat (r - 1)) (Z.to_nat (rw - 1) + Z.to_nat n)); [lia|].
        replace (Z.to_nat (r - 1) - Z.to_nat (rw - 1) - Z.to_nat n + Z.to_nat (rw - 1))%nat with (Z.to_nat (r - n - 1)) by lia.
        destruct (nth_error (rows sh) (Z.to_nat (r - n - 1))) as [x|]; cbn [option_map]; [|reflexivity].
        cbn [shift_row r_cells]. now rewrite nth_error_map.
  - destruct (Z.ltb_spec r rw) as [H1|H1]; [reflexivity|].
    assert (E : nth_error (rows sh) (Z.to_nat (r - 1)) = None) by (apply nth_error_None; unfold len in *; lia).
    rewrite E. destruct (Z.ltb_spec r (rw + n)); [reflexivity|].
    assert (E' : nth_error (rows sh) (Z.to_nat (r - n - 1)) = None) by (apply nth_error_None; unfold len in *; lia).
    now rewrite E'.
Qed.

Lemma place_row_cell_at rw2 copy sh c r : 1 <= rw2 -> 1 <= c -> 1 <= r ->
  cell_at (place_row rw2 copy sh) c r =
  if r =? rw2 then nth_error (r_cells copy) (Z.to_nat (c - 1)) else cell_at sh c r.
Proof.
  intros H2 Hc Hr. unfold place_row, cell_at. cbn [rows]. set (len := Z.of_nat (length (rows sh))).
  destruct (Z.leb_spec rw2 len) as [Hle|Hgt].
  - rewrite nth_error_upd. destruct (Z.eqb_spec r rw2) as [E|N].
    + subst r. rewrite Nat.eqb_refl.
      destruct (nth_error (rows sh) (Z.to_nat (rw2 - 1))) as [x|] eqn:Ex; [reflexivity|].
      apply nth_error_None in Ex. unfold len in *. lia.
    + destruct (Nat.eqb_spec (Z.to_nat (r - 1)) (Z.to_nat (rw2 - 1))); [lia|reflexivity].
  - destruct (Z.ltb_spec r (len + 1)) as [Hin|Hout].
    + rewrite nth_error_app1 by (unfold len in *; lia). destruct (Z.eqb_spec r rw2); [lia|reflexivity].
    + rewrite nth_error_app2 by (unfold len in *; lia).
      assert (E : nth_error (rows sh) (Z.to_nat (r - 1)) = None) by (apply nth_error_None; unfold len in *; lia).
      rewrite E. destruct (Z.eqb_spec r rw2) as [Er|Nr].
      * subst r. rewrite nth_error_app2 by (rewrite new_rows_length; unfold len in *; lia).
        rewrite new_rows_length.
        replace (Z.to_nat (rw2 - 1) - length (rows sh) - Z.to_nat (rw2 - len - 1))%nat with 0%nat by (unfold len in *; lia).
        reflexivity.
      * destruct (Z.ltb_spec r rw2) as [Hlt|Hge].
        -- rewrite nth_error_app1 by (rewrite new_rows_length; unfold len in *; lia).
           rewrite nth_error_new_rows.
           destruct (Nat.ltb_spec (Z.to_nat (r - 1) - length (rows sh)) (Z.to_nat (rw2 - len - 1))); [|unfold len in *; lia].
           cbn [r_cells]. now rewrite nth_error_nil.
        -- rewrite nth_error_app2 by (rewrite new_rows_length; unfold len in *; lia). rewrite new_rows_length.
           destruct (Z.to_nat (r - 1) - length (rows sh) - Z.to_nat (rw2 - len - 1))%nat as [|k] eqn:Ek; [unfold len in *; lia|].
           cbn [nth_error]. now rewrite nth_error_nil.
Qed.

Lemma dup_merges_nil rw rw2 sh : merges sh = [] -> dup_merges rw rw2 sh = sh.
Proof. intros H. unfold dup_merges. rewrite H. reflexivity. Qed.

Lemma obs_dup_cell rw2 oc : obs_of (option_map (dup_cell rw2) oc) = obs_of oc.
Proof. destruct oc; reflexivity. Qed.

(* C06: DuplicateRowTo on a sheet without merged ranges *)
Lemma dup_row_to_refines rw rw2 sh sh' : dup_row_to rw rw2 sh = Ok sh' -> merges sh = [] -> rw <> rw2 -> 1 <= rw2 ->
  forall c r, 1 <= c -> 1 <= r -> abs sh' c r = dup_rows_spec rw rw2 (abs sh) c r.
Proof.
  unfold dup_row_to. intros H Hm Hne H2 c r Hc Hr.
  destruct (rw <? 1) eqn:E1; [discriminate|].
  destruct (Z.ltb_spec rw2 1) as [?|_]; [lia|]. destruct (Z.eqb_spec rw rw2) as [?|_]; [lia|]. cbn [orb] in H.
  destruct (rw2 >? TotalRows); [discriminate|].
  destruct ((0 <? Z.of_nat (length (rows sh))) && (Z.of_nat (length (rows sh)) >=? rw2) && (Z.of_nat (length (rows sh)) + 1 >? TotalRows)); [discriminate|].
  assert (Hsd := shift_down_cell_at rw2 1 sh c r H2 ltac:(lia) Hc Hr).
  unfold dup_rows_spec. rewrite !abs_cell_at.
  destruct (nth_error (rows sh) (Z.to_nat (rw - 1))) as [r0|] eqn:Esrc; inversion H; subst sh'; clear H.
  - rewrite dup_merges_nil by (cbn [place_row merges shift_down]; rewrite Hm; reflexivity).
    rewrite (place_row_cell_at rw2 _ _ c r H2 Hc Hr). cbn [r_cells].
    destruct (Z.eqb_spec r rw2) as [E|N].
    + subst r. destruct (Z.ltb_spec rw2 rw2); [lia|].
      rewrite nth_error_map, obs_dup_cell. unfold cell_at. rewrite Esrc. reflexivity.
    + rewrite Hsd. destruct (Z.ltb_spec r rw2); [reflexivity|].
      destruct (Z.ltb_spec r (rw2 + 1)); [lia|]. now rewrite obs_shift_cell.
  - rewrite Hsd. destruct (Z.ltb_spec r rw2); [reflexivity|].
    destruct (Z.eqb_spec r rw2) as [E|N].
    + subst r. destruct (Z.ltb_spec rw2 (rw2 + 1)); [|lia]. unfold cell_at. rewrite Esrc. reflexivity.
    + destruct (Z.ltb_spec r (rw2 + 1)); [lia|]. now rewrite obs_shift_cell.
Qed.

(* removing the duplicate restores the sheet *)
Lemma dup_remove_id rw rw2 sh sh1 sh2 : dup_row_to rw rw2 sh = Ok sh1 -> remove_row rw2 sh1 = Ok sh2 ->
  merges sh = [] -> rw <> rw2 -> 1 <= rw2 ->
  forall c r, 1 <= c -> 1 <= r -> abs sh2 c r = abs sh c r.
Proof.
  intros H1 H2 Hm Hne Hp c r Hc Hr.
  rewrite (remove_row_refines rw2 sh1 sh2 H2 c r Hc Hr). unfold remove_row_spec.
  destruct (Z.ltb_spec r rw2).
  - rewrite (dup_row_to_refines rw rw2 sh sh1 H1 Hm Hne Hp c r Hc Hr). unfold dup_rows_spec.
    destruct (Z.ltb_spec r rw2); [reflexivity|lia].
  - rewrite (dup_row_to_refines rw rw2 sh sh1 H1 Hm Hne Hp c (r + 1) Hc ltac:(lia)). unfold dup_rows_spec.
    destruct (Z.ltb_spec (r + 1) rw2); [lia|]. destruct (Z.eqb_spec (r + 1) rw2); [lia|]. f_equal. lia.
Qed.

(* a rejected duplication changes nothing *)
Lemma estep_reject_dup rw rw2 sh e : dup_row_to rw rw2 sh = Err e -> estep sh (EDupRowTo rw rw2) = sh.
Proof. intros H. cbn [estep]. now rewrite H. Qed.

(* row attributes travel with their rows, and the duplicate has those of the source row *)
Lemma shift_down_attrs rw sh r : 1 <= rw -> 1 <= r ->
  row_attrs (shift_down rw 1 sh) r =
  if r <? rw then row_attrs sh r else if r =? rw then (0, None, false) else row_attrs sh (r - 1).
Proof.
  intros Hrw Hr. unfold shift_down, row_attrs. cbn [rows]. set (len := Z.of_nat (length (rows sh))).
  destruct (Z.leb_spec rw len) as [Hle|Hgt].
  - rewrite (nth_error_splice (shift_row 1)) by (unfold len in *; lia). rewrite new_rows_length.
    destruct (Z.ltb_spec r rw) as [H1|H1].
    + destruct (Nat.ltb_spec (Z.to_nat (r - 1)) (Z.to_nat (rw - 1))); [reflexivity|lia].
    + destruct (Nat.ltb_spec (Z.to_nat (r - 1)) (Z.to_nat (rw - 1))); [lia|].
      destruct (Z.eqb_spec r rw) as [E|N].
      * destruct (Nat.ltb_spec (Z.to_nat (r - 1)) (Z.to_nat (rw - 1) + Z.to_nat 1)); [|lia].
        rewrite nth_error_new_rows. destruct (Nat.ltb_spec (Z.to_nat (r - 1) - Z.to_nat (rw - 1)) (Z.to_nat 1)); [reflexivity|lia].
      * destruct (Nat.ltb_spec (Z.to_nat (r - 1)) (Z.to_nat (rw - 1) + Z.to_nat 1)); [lia|].
        replace (Z.to_nat (r - 1) - Z.to_nat (rw - 1) - Z.to_nat 1 + Z.to_nat (rw - 1))%nat with (Z.to_nat (r - 1 - 1)) by lia.
        destruct (nth_error (rows sh) (Z.to_nat (r - 1 - 1))) as [x|]; reflexivity.
  - destruct (Z.ltb_spec r rw) as [H1|H1]; [reflexivity|].
    assert (E : nth_error (rows sh) (Z.to_nat (r - 1)) = None) by (apply nth_error_None; unfold len in *; lia).
    rewrite E. destruct (Z.eqb_spec r rw); [reflexivity|].
    assert (E' : nth_error (rows sh) (Z.to_nat (r - 1 - 1)) = None) by (apply nth_error_None; unfold len in *; lia).
    now rewrite E'.
Qed.

Lemma place_row_attrs rw2 copy sh r : 1 <= rw2 -> 1 <= r ->
  row_attrs (place_row rw2 copy sh) r = if r =? rw2 then (r_s copy, r_ht copy, r_hidden copy) else row_attrs sh r.
Proof.
  intros H2 Hr. unfold place_row, row_attrs. cbn [rows]. set (len := Z.of_nat (length (rows sh))).
  destruct (Z.leb_spec rw2 len) as [Hle|Hgt].
  - rewrite nth_error_upd. destruct (Z.eqb_spec r rw2) as [E|N].
    + subst r. rewrite Nat.eqb_refl.
      destruct (nth_error (rows sh) (Z.to_nat (rw2 - 1))) as [x|] eqn:Ex; [reflexivity|].
      apply nth_error_None in Ex. unfold len in *. lia.
    + destruct (Nat.eqb_spec (Z.to_nat (r - 1)) (Z.to_nat (rw2 - 1))); [lia|reflexivity].
  - destruct (Z.ltb_spec r (len + 1)) as [Hin|Hout].
    + rewrite nth_error_app1 by (unfold len in *; lia). destruct (Z.eqb_spec r rw2); [lia|reflexivity].
    + rewrite nth_error_app2 by (unfold len in *; lia).
      assert (E : nth_error (rows sh) (Z.to_nat (r - 1)) = None) by (apply nth_error_None; unfold len in *; lia).
      rewrite E. destruct (Z.eqb_spec r rw2) as [Er|Nr].
      * subst r. rewrite nth_error_app2 by (rewrite new_rows_length; unfold len in *; lia).
        rewrite new_rows_length.
        replace (Z.to_nat (rw2 - 1) - length (rows sh) - Z.to_nat (rw2 - len - 1))%nat with 0%nat by (unfold len in *; lia).
        reflexivity.
      * destruct (Z.ltb_spec r rw2) as [Hlt|Hge].
        -- rewrite nth_error_app1 by (rewrite new_rows_length; unfold len in *; lia).
           rewrite nth_error_new_rows.
           destruct (Nat.ltb_spec (Z.to_nat (r - 1) - length (rows sh)) (Z.to_nat (rw2 - len - 1))); [reflexivity|unfold len in *; lia].
        -- rewrite nth_error_app2 by (rewrite new_rows_length; unfold len in *; lia). rewrite new_rows_length.
           destruct (Z.to_nat (r - 1) - length (rows sh) - Z.to_nat (rw2 - len - 1))%nat as [|k] eqn:Ek; [unfold len in *; lia|].
           cbn [nth_error]. now rewrite nth_error_nil.
Qed.

Lemma dup_row_to_attrs rw rw2 sh sh' : dup_row_to rw rw2 sh = Ok sh' -> merges sh = [] -> rw <> rw2 -> 1 <= rw2 ->
  forall r, 1 <= r ->
  row_attrs sh' r = if r <? rw2 then row_attrs sh r else if r =? rw2 then row_attrs sh rw else row_attrs sh (r - 1).
Proof.
  unfold dup_row_to. intros H Hm Hne H2 r Hr.
  destruct (rw <? 1) eqn:E1; [discriminate|].
  destruct (Z.ltb_spec rw2 1) as [?|_]; [lia|]. destruct (Z.eqb_spec rw rw2) as [?|_]; [lia|]. cbn [orb] in H.
  destruct (rw2 >? TotalRows); [discriminate|].
  destruct ((0 <? Z.of_nat (length (rows sh))) && (Z.of_nat (length (rows sh)) >=? rw2) && (Z.of_nat (length (rows sh)) + 1 >? TotalRows)); [discriminate|].
  assert (Hsd := shift_down_attrs rw2 sh r H2 Hr).
  destruct (nth_error (rows sh) (Z.to_nat (rw - 1))) as [r0|] eqn:Esrc; inversion H; subst sh'; clear H.
  - rewrite dup_merges_nil by (cbn [place_row merges shift_down]; rewrite Hm; reflexivity).
    rewrite (place_row_attrs rw2 _ _ r H2 Hr). cbn [r_s r_ht r_hidden].
    destruct (Z.eqb_spec r rw2) as [E|N].
    + subst r. destruct (Z.ltb_spec rw2 rw2); [lia|]. unfold row_attrs. rewrite Esrc. reflexivity.
    + rewrite Hsd. destruct (Z.ltb_spec r rw2); reflexivity.
  - rewrite Hsd. destruct (Z.ltb_spec r rw2); [reflexivity|].
    destruct (Z.eqb_spec r rw2); [|reflexivity]. unfold row_attrs. rewrite Esrc. reflexivity.
Qed.
