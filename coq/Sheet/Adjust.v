(* C06 model: row/column insertion and removal on the sheet core
   (adjust.go:adjustHelper, adjustRowDimensions, adjustColDimensions, adjustCols, adjustMergeCells(+Helper),
    rows.go:RemoveRow/InsertRows, col.go:RemoveCol/InsertCols; re-densification by checkSheet/checkRow). *)
From VF Require Import Base.Prelude Generated.Consts Sheet.Model.

Definition shift_cell (dc dr : Z) (c : cell) : cell := mkCell (c_col c + dc) (c_row c + dr) (c_s c) (c_t c) (c_v c) (c_f c).
Definition shift_row (d : Z) (r : row) : row := mkRow (r_r r + d) (map (shift_cell 0 d) (r_cells r)) (r_s r) (r_ht r) (r_hidden r).

(* adjust.go:adjustMergeCellsHelper *)
Definition adjust_span (p1 p2 num offset : Z) : Z * Z :=
  if 0 <=? offset then
    (if num <=? p1 then (p1 + offset, p2 + offset) else if num <=? p2 then (p1, p2 + offset) else (p1, p2))
  else
    (if (num <? p1) || ((num =? p1) && (num =? p2)) then (p1 + offset, p2 + offset)
     else if num <=? p2 then (p1, p2 + offset) else (p1, p2)).

(* adjust.go:adjustMergeCells *)
Definition adjust_merges (is_rows : bool) (num offset : Z) (ms : list rect) : list rect :=
  flat_map (fun m => let '(x1, y1, x2, y2) := m in
    if is_rows then
      (if (y1 =? num) && (y2 =? num) && (offset <? 0) then []
       else let '(a, b) := adjust_span y1 y2 num offset in
            if (x1 =? x2) && (a =? b) then [] else [(x1, a, x2, b)])
    else
      (if (x1 =? num) && (x2 =? num) && (offset <? 0) then []
       else let '(a, b) := adjust_span x1 x2 num offset in
            if (a =? b) && (y1 =? y2) then [] else [(a, y1, b, y2)])) ms.

(* adjust.go:adjustCols *)
Definition adjust_cols (col offset : Z) (cs : list (Z * Z * Z)) : list (Z * Z * Z) :=
  flat_map (fun e => let '(mn, mx, st) := e in
    if 0 <? offset then
      let mn' := if mn >=? col then mn + offset else mn in
      if (mn >=? col) && (mn' >? MaxColumns) then []
      else let mx' := if (mx >=? col) || (mx + 1 =? col) then Z.min (mx + offset) MaxColumns else mx in [(mn', mx', st)]
    else
      if (mn =? col) && (mx =? col) then []
      else [((if mn >? col then mn + offset else mn), (if mx >=? col then mx + offset else mx), st)]) cs.

(* rows.go:InsertRows -> adjustRowDimensions + checkSheet *)
Definition insert_rows (rw n : Z) (sh : sheet) : res sheet :=
  if rw <? 1 then Err 6
  else if (rw >=? TotalRows) || (n >=? TotalRows) then Err 4
  else if n <? 1 then Err 7
  else
    let len := Z.of_nat (length (rows sh)) in
    if (0 <? len) && (len >=? rw) && (len + n >? TotalRows) then Err 4
    else
      let rs := if rw <=? len
                then firstn (Z.to_nat (rw - 1)) (rows sh) ++ new_rows (Z.to_nat n) rw ++ map (shift_row n) (skipn (Z.to_nat (rw - 1)) (rows sh))
                else rows sh in
      Ok (mkSheet rs (cols sh) (adjust_merges true rw n (merges sh))).

(* rows.go:RemoveRow *)
Definition remove_row (rw : Z) (sh : sheet) : res sheet :=
  if rw <? 1 then Err 6
  else
    let len := Z.of_nat (length (rows sh)) in
    let rs := if rw <=? len
              then firstn (Z.to_nat (rw - 1)) (rows sh) ++ map (shift_row (-1)) (skipn (Z.to_nat rw) (rows sh))
              else rows sh in
    Ok (mkSheet rs (cols sh) (adjust_merges true rw (-1) (merges sh))).

(* col.go:InsertCols -> adjustColDimensions + checkRow *)
Definition insert_cols_row (col n : Z) (r : row) : row :=
  let len := Z.of_nat (length (r_cells r)) in
  if col <=? len
  then mkRow (r_r r) (firstn (Z.to_nat (col - 1)) (r_cells r) ++ fillers (Z.to_nat n) col (r_r r) ++
                      map (shift_cell n 0) (skipn (Z.to_nat (col - 1)) (r_cells r))) (r_s r) (r_ht r) (r_hidden r)
  else r.
Definition insert_cols (col n : Z) (sh : sheet) : res sheet :=
  if (col <? 1) || (col >? MaxColumns) then Err 2
  else if (n <? 1) || (n >? MaxColumns) then Err 2
  else if existsb (fun r => let len := Z.of_nat (length (r_cells r)) in (col <=? len) && (len + n >? MaxColumns)) (rows sh) then Err 2
  else Ok (mkSheet (map (insert_cols_row col n) (rows sh)) (adjust_cols col n (cols sh)) (adjust_merges false col n (merges sh))).

(* col.go:RemoveCol *)
Definition remove_col_row (col : Z) (r : row) : row :=
  let len := Z.of_nat (length (r_cells r)) in
  if col <=? len
  then mkRow (r_r r) (firstn (Z.to_nat (col - 1)) (r_cells r) ++ map (shift_cell (-1) 0) (skipn (Z.to_nat col) (r_cells r))) (r_s r) (r_ht r) (r_hidden r)
  else r.
Definition remove_col (col : Z) (sh : sheet) : res sheet :=
  if (col <? 1) || (col >? MaxColumns) then Err 2
  else Ok (mkSheet (map (remove_col_row col) (rows sh)) (adjust_cols col (-1) (cols sh)) (adjust_merges false col (-1) (merges sh))).

(* rows.go:DuplicateRowTo: the source row is looked up, adjustHelper(rows, rw2, +1) shifts everything at or below
   the target (without the argument checks of InsertRows), the copy (cells renamed to the target row; row attributes
   kept) is stored at the target position - replacing the inserted blank row, or after filling the gap when the target
   lies below the last row - and single-row merged ranges of the source row are repeated on the copy
   (rows.go:duplicateMergeCells, which gives up when a taller range strictly contains the target row). *)
Definition dup_cell (rw2 : Z) (c : cell) : cell := mkCell (c_col c) rw2 (c_s c) (c_t c) (c_v c) (c_f c).
Definition shift_down (rw n : Z) (sh : sheet) : sheet :=
  let len := Z.of_nat (length (rows sh)) in
  mkSheet (if rw <=? len
           then firstn (Z.to_nat (rw - 1)) (rows sh) ++ new_rows (Z.to_nat n) rw ++ map (shift_row n) (skipn (Z.to_nat (rw - 1)) (rows sh))
           else rows sh)
          (cols sh) (adjust_merges true rw n (merges sh)).
Definition place_row (rw2 : Z) (copy : row) (sh : sheet) : sheet :=
  let len := Z.of_nat (length (rows sh)) in
  mkSheet (if rw2 <=? len then upd (rows sh) (Z.to_nat (rw2 - 1)) (fun _ => copy)
           else rows sh ++ new_rows (Z.to_nat (rw2 - len - 1)) (len + 1) ++ [copy])
          (cols sh) (merges sh).
Definition dup_merges (rw rw2 : Z) (sh : sheet) : sheet :=
  let src := if rw >? rw2 then rw + 1 else rw in
  if existsb (fun m : rect => let '(_, y1, _, y2) := m in (y1 <? rw2) && (rw2 <? y2)) (merges sh) then sh
  else fold_left (fun s (m : rect) => let '(x1, y1, x2, y2) := m in
                    if (y1 =? y2) && (y1 =? src) then merge_cell (x1, rw2, x2, rw2) s else s) (merges sh) sh.
Definition dup_row_to (rw rw2 : Z) (sh : sheet) : res sheet :=
  if rw <? 1 then Err 6
  else if (rw2 <? 1) || (rw =? rw2) then Ok sh
  else if rw2 >? TotalRows then Err 4
  else
    let len := Z.of_nat (length (rows sh)) in
    if (0 <? len) && (len >=? rw2) && (len + 1 >? TotalRows) then Err 4
    else
      let sh1 := shift_down rw2 1 sh in
      match nth_error (rows sh) (Z.to_nat (rw - 1)) with
      | None => Ok sh1
      | Some r =>
        Ok (dup_merges rw rw2 (place_row rw2 (mkRow rw2 (map (dup_cell rw2) (r_cells r)) (r_s r) (r_ht r) (r_hidden r)) sh1))
      end.

Inductive eop :=
| EBase (o : op)
| EInsertRows (rw n : Z) | ERemoveRow (rw : Z) | EInsertCols (col n : Z) | ERemoveCol (col : Z)
| EDupRowTo (rw rw2 : Z).

(* a rejected edit changes nothing *)
Definition estep (sh : sheet) (e : eop) : sheet :=
  match e with
  | EBase o => step sh o
  | EInsertRows rw n => match insert_rows rw n sh with Ok s => s | _ => sh end
  | ERemoveRow rw => match remove_row rw sh with Ok s => s | _ => sh end
  | EInsertCols col n => match insert_cols col n sh with Ok s => s | _ => sh end
  | ERemoveCol col => match remove_col col sh with Ok s => s | _ => sh end
  | EDupRowTo rw rw2 => match dup_row_to rw rw2 sh with Ok s => s | _ => sh end
  end.
Definition erun (es : list eop) (sh : sheet) : sheet := fold_left estep es sh.

(* S: the relocation of grid content *)
Definition shift_rows_spec (rw n : Z) (g : grid) : grid :=
  fun c r => if r <? rw then g c r else if r <? rw + n then empty_obs else g c (r - n).
Definition remove_row_spec (rw : Z) (g : grid) : grid :=
  fun c r => if r <? rw then g c r else g c (r + 1).
Definition shift_cols_spec (col n : Z) (g : grid) : grid :=
  fun c r => if c <? col then g c r else if c <? col + n then empty_obs else g (c - n) r.
Definition remove_col_spec (col : Z) (g : grid) : grid :=
  fun c r => if c <? col then g c r else g (c + 1) r.
(* row attributes (style, height, hidden) by row number; a row that does not exist has the defaults *)
Definition row_attrs (sh : sheet) (rw : Z) : Z * option Z * bool :=
  match nth_error (rows sh) (Z.to_nat (rw - 1)) with Some x => (r_s x, r_ht x, r_hidden x) | None => (0, None, false) end.
(* the duplicate sits at rw2 and shows what row rw showed before the edit; everything from rw2 on moves down by one *)
Definition dup_rows_spec (rw rw2 : Z) (g : grid) : grid :=
  fun c r => if r <? rw2 then g c r else if r =? rw2 then g c rw else g c (r - 1).
