(* C06/C05: structural edits keep the merged ranges well formed and pairwise disjoint, and move each by the shift rule. *)
From VF Require Import Base.Prelude Generated.Consts Sheet.Model Sheet.Proofs Sheet.Adjust C03.Merge.
From Coq Require Import ZifyBool ZifyNat.

Lemma disjoint_arith a b : rect_ok a -> rect_ok b ->
  (disjoint a b <-> let '(x1, y1, x2, y2) := a in let '(x3, y3, x4, y4) := b in x2 < x3 \/ x4 < x1 \/ y2 < y3 \/ y4 < y1).
Proof.
  destruct a as [[[x1 y1] x2] y2], b as [[[x3 y3] x4] y4]. unfold rect_ok, disjoint, in_rect. intros Ha Hb. split.
  - intros H. destruct (Z_lt_dec x2 x3); [tauto|]. destruct (Z_lt_dec x4 x1); [tauto|].
    destruct (Z_lt_dec y2 y3); [tauto|]. destruct (Z_lt_dec y4 y1); [tauto|].
    exfalso. apply (H (Z.max x1 x3) (Z.max y1 y3)); lia.
  - intros H x y A B. lia.
Qed.

(* the image of one range under an edit: at most one range *)
Definition adjust_one (is_rows : bool) (num offset : Z) (m : rect) : list rect := adjust_merges is_rows num offset [m].
Lemma adjust_merges_flat is_rows num offset ms : adjust_merges is_rows num offset ms = flat_map (adjust_one is_rows num offset) ms.
Proof.
  unfold adjust_one, adjust_merges. induction ms as [|m ms IH]; [reflexivity|]. cbn [flat_map]. rewrite IH, app_nil_r. reflexivity.
Qed.

Ltac split_ifs := repeat match goal with |- context [if ?c then _ else _] => destruct c eqn:? end.
Ltac fin := cbn [app In]; let H := fresh in intros H; first [contradiction | destruct H as [H|H]; [inversion H; subst; lia|contradiction]].

Lemma adjust_one_ok is_rows num offset m r : 1 <= num -> (1 <= offset \/ offset = -1) -> rect_ok m ->
  In r (adjust_one is_rows num offset m) -> rect_ok r.
Proof.
  intros Hn Ho Hm. unfold adjust_one, adjust_merges, adjust_span, rect_ok in *. destruct m as [[[x1 y1] x2] y2]. cbn [flat_map].
  destruct r as [[[a1 b1] a2] b2]. destruct is_rows; split_ifs; fin.
Qed.

Lemma adjust_one_pair is_rows num offset a b r r' : 1 <= num -> (1 <= offset \/ offset = -1) -> rect_ok a -> rect_ok b ->
  disjoint a b -> In r (adjust_one is_rows num offset a) -> In r' (adjust_one is_rows num offset b) -> disjoint r r'.
Proof.
  intros Hn Ho Ha Hb Hd Hr Hr'.
  pose proof (adjust_one_ok _ _ _ _ _ Hn Ho Ha Hr) as Okr. pose proof (adjust_one_ok _ _ _ _ _ Hn Ho Hb Hr') as Okr'.
  apply (disjoint_arith r r' Okr Okr'). apply (disjoint_arith a b Ha Hb) in Hd.
  revert Hr Hr'. unfold adjust_one, adjust_merges, adjust_span, rect_ok in *.
  destruct a as [[[x1 y1] x2] y2], b as [[[x3 y3] x4] y4], r as [[[a1 b1] a2] b2], r' as [[[c1 d1] c2] d2]. cbn [flat_map].
  destruct is_rows.
  - split_ifs; cbn [app In]; intros H H'; try contradiction; destruct H as [H|[]]; destruct H' as [H'|[]]; inversion H; inversion H'; subst; lia.
  - split_ifs; cbn [app In]; intros H H'; try contradiction; destruct H as [H|[]]; destruct H' as [H'|[]]; inversion H; inversion H'; subst; lia.
Qed.

Lemma adjust_one_single is_rows num offset m : ForallOrdPairs disjoint (adjust_one is_rows num offset m).
Proof.
  unfold adjust_one, adjust_merges. destruct m as [[[x1 y1] x2] y2]. cbn [flat_map].
  destruct is_rows; split_ifs; try (destruct (adjust_span _ _ _ _) as [a b]; split_ifs); cbn [app]; repeat constructor.
Qed.

Lemma FOP_app {A} (Q : A -> A -> Prop) l1 l2 : ForallOrdPairs Q l1 -> ForallOrdPairs Q l2 ->
  (forall x y, In x l1 -> In y l2 -> Q x y) -> ForallOrdPairs Q (l1 ++ l2).
Proof.
  induction 1 as [|a l Ha Hl IH]; intros H2 Hx; cbn [app]; [exact H2|].
  apply FOP_cons.
  - apply Forall_app. split; [exact Ha|]. apply Forall_forall. intros y Hy. apply Hx; [left; reflexivity|exact Hy].
  - apply IH; [exact H2|]. intros x y Hi Hy. apply Hx; [right; exact Hi|exact Hy].
Qed.

Theorem adjust_merges_disjoint is_rows num offset ms : 1 <= num -> (1 <= offset \/ offset = -1) ->
  Forall rect_ok ms -> ForallOrdPairs disjoint ms ->
  Forall rect_ok (adjust_merges is_rows num offset ms) /\ ForallOrdPairs disjoint (adjust_merges is_rows num offset ms).
Proof.
  intros Hn Ho. rewrite adjust_merges_flat. induction ms as [|m ms IH]; intros Hok Hfop; cbn [flat_map].
  - split; constructor.
  - inversion Hok as [|? ? Hm Hok']; subst. inversion Hfop as [|? ? Hma Hfop']; subst.
    destruct (IH Hok' Hfop') as (A & B). split.
    + apply Forall_app. split; [|exact A]. apply Forall_forall. intros r Hr. exact (adjust_one_ok _ _ _ _ _ Hn Ho Hm Hr).
    + apply FOP_app; [apply adjust_one_single|exact B|].
      intros x y Hx Hy. apply in_flat_map in Hy. destruct Hy as (b & Hb & Hy).
      exact (adjust_one_pair _ _ _ m b x y Hn Ho Hm (proj1 (Forall_forall _ _) Hok' b Hb) (proj1 (Forall_forall _ _) Hma b Hb) Hx Hy).
Qed.

(* the shift rule for one merged range under row insertion and row removal (columns: the same with x for y) *)
Lemma adjust_one_rows_insert num n x1 y1 x2 y2 : 1 <= n -> y1 <= y2 -> x1 <= x2 -> (x1 < x2 \/ y1 < y2) ->
  adjust_one true num n (x1, y1, x2, y2) =
  [if num <=? y1 then (x1, y1 + n, x2, y2 + n) else if num <=? y2 then (x1, y1, x2, y2 + n) else (x1, y1, x2, y2)].
Proof.
  intros Hn Hy Hx Hne. unfold adjust_one, adjust_merges, adjust_span. cbn [flat_map]. split_ifs; cbn [app]; try reflexivity; lia.
Qed.
Lemma adjust_one_rows_remove num x1 y1 x2 y2 : y1 <= y2 -> x1 <= x2 -> (x1 < x2 \/ y1 < y2) ->
  adjust_one true num (-1) (x1, y1, x2, y2) =
  if (y1 =? num) && (y2 =? num) then []                       (* the range lay in the removed row *)
  else if num <? y1 then [(x1, y1 - 1, x2, y2 - 1)]            (* below the removed row: moves up *)
  else if num <=? y2 then (if (x1 =? x2) && (y1 =? y2 - 1) then [] else [(x1, y1, x2, y2 - 1)])   (* spans it: shrinks; a single cell is no range *)
  else [(x1, y1, x2, y2)].
Proof.
  intros Hy Hx Hne. unfold adjust_one, adjust_merges, adjust_span. cbn [flat_map]. split_ifs; cbn [app]; try reflexivity; try lia; repeat f_equal; lia.
Qed.
