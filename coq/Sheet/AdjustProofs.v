From VF Require Import Base.Prelude Generated.Consts Sheet.Model Sheet.Proofs Sheet.Adjust.
From Coq Require Import ZifyBool ZifyNat.

Lemma nth_error_skipn {A} (l : list A) : forall k i, nth_error (skipn k l) i = nth_error l (k + i).
Proof. induction l as [|x l IH]; intros [|k] i; cbn; try reflexivity; [now destruct i|apply IH]. Qed.

(* nth_error through  firstn k l ++ m ++ map f (skipn k' l) *)
Lemma nth_error_splice {A} (f : A -> A) (l m : list A) k k' i :
  (k <= length l)%nat ->
  nth_error (firstn k l ++ m ++ map f (skipn k' l)) i =
  if (i <? k)%nat then nth_error l i
  else if (i <? k + length m)%nat then nth_error m (i - k)
  else option_map f (nth_error l (i - k - length m + k')).
Proof.
  intros Hk. assert (Hfl : length (firstn k l) = k) by (rewrite firstn_length; lia).
  destruct (Nat.ltb_spec i k) as [H1|H1].
  - rewrite nth_error_app1 by lia. now apply nth_error_firstn.
  - rewrite nth_error_app2 by lia. rewrite Hfl.
    destruct (Nat.ltb_spec i (k + length m)) as [H2|H2].
    + now rewrite nth_error_app1 by lia.
    + rewrite nth_error_app2 by lia. rewrite nth_error_map, nth_error_skipn. f_equal. f_equal. lia.
Qed.

Lemma obs_shift_cell dc dr oc : obs_of (option_map (shift_cell dc dr) oc) = obs_of oc.
Proof. destruct oc; reflexivity. Qed.

(* ---------- rows ---------- *)
Lemma insert_rows_cell_at rw n sh sh' c r :
  insert_rows rw n sh = Ok sh' -> 1 <= c -> 1 <= r ->
  cell_at sh' c r =
  if r <? rw then cell_at sh c r
  else if r <? rw + n then None
  else option_map (shift_cell 0 n) (cell_at sh c (r - n)).
Proof.
  unfold insert_rows. destruct (rw <? 1) eqn:E1; [discriminate|].
  destruct ((rw >=? TotalRows) || (n >=? TotalRows)); [discriminate|].
  destruct (n <? 1) eqn:E3; [discriminate|].
  set (len := Z.of_nat (length (rows sh))).
  destruct ((0 <? len) && (len >=? rw) && (len + n >? TotalRows)); [discriminate|].
  intros H Hc Hr. inversion H; subst sh'. clear H. unfold cell_at. cbn [rows].
  destruct (Z.leb_spec rw len) as [Hle|Hgt].
  - rewrite (nth_error_splice (shift_row n)) by (unfold len in *; lia).
    rewrite new_rows_length.
    destruct (Z.ltb_spec r rw) as [H1|H1].
    + destruct (Nat.ltb_spec (Z.to_nat (r - 1)) (Z.to_nat (rw - 1))); [reflexivity|lia].
    + destruct (Nat.ltb_spec (Z.to_nat (r - 1)) (Z.to_nat (rw - 1))); [lia|].
      destruct (Z.ltb_spec r (rw + n)) as [H2|H2].
      * destruct (Nat.ltb_spec (Z.to_nat (r - 1)) (Z.to_nat (rw - 1) + Z.to_nat n)); [|lia].
        rewrite nth_error_new_rows. destruct (Nat.ltb_spec (Z.to_nat (r - 1) - Z.to_nat (rw - 1)) (Z.to_nat n)); [|lia].
        cbn [r_cells]. now rewrite nth_error_nil.
      * destruct (Nat.ltb_spec (Z.to_nat (r - 1)) (Z.to_nat (rw - 1) + Z.to_nat n)); [lia|].
        replace (Z.to_nat (r - 1) - Z.to_nat (rw - 1) - Z.to_nat n + Z.to_nat (rw - 1))%nat with (Z.to_nat (r - n - 1)) by lia.
        destruct (nth_error (rows sh) (Z.to_nat (r - n - 1))) as [x|]; cbn [option_map]; [|reflexivity].
        cbn [shift_row r_cells]. now rewrite nth_error_map.
  - (* nothing to shift: every row at or beyond rw is absent *)
    destruct (Z.ltb_spec r rw) as [H1|H1]; [reflexivity|].
    assert (E : nth_error (rows sh) (Z.to_nat (r - 1)) = None) by (apply nth_error_None; unfold len in *; lia).
    rewrite E. destruct (Z.ltb_spec r (rw + n)); [reflexivity|].
    assert (E' : nth_error (rows sh) (Z.to_nat (r - n - 1)) = None) by (apply nth_error_None; unfold len in *; lia).
    now rewrite E'.
Qed.

(* C06: InsertRows relocates every cell exactly as the shift rule says *)
Lemma insert_rows_refines rw n sh sh' :
  insert_rows rw n sh = Ok sh' -> forall c r, 1 <= c -> 1 <= r ->
  abs sh' c r = shift_rows_spec rw n (abs sh) c r.
Proof.
  intros H c r Hc Hr. rewrite abs_cell_at, (insert_rows_cell_at rw n sh sh' c r H Hc Hr). unfold shift_rows_spec.
  destruct (r <? rw); [now rewrite abs_cell_at|]. destruct (r <? rw + n); [reflexivity|].
  now rewrite obs_shift_cell, abs_cell_at.
Qed.

Lemma remove_row_cell_at rw sh sh' c r :
  remove_row rw sh = Ok sh' -> 1 <= c -> 1 <= r ->
  cell_at sh' c r = if r <? rw then cell_at sh c r else option_map (shift_cell 0 (-1)) (cell_at sh c (r + 1)).
Proof.
  unfold remove_row. destruct (rw <? 1) eqn:E1; [discriminate|].
  set (len := Z.of_nat (length (rows sh))). intros H Hc Hr. inversion H; subst sh'. clear H. unfold cell_at. cbn [rows].
  destruct (Z.leb_spec rw len) as [Hle|Hgt].
  - pose proof (nth_error_splice (shift_row (-1)) (rows sh) [] (Z.to_nat (rw - 1)) (Z.to_nat rw) (Z.to_nat (r - 1))) as Hs.
    cbn [app length] in Hs. rewrite Hs by (unfold len in *; lia). clear Hs.
    destruct (Z.ltb_spec r rw) as [H1|H1].
    + destruct (Nat.ltb_spec (Z.to_nat (r - 1)) (Z.to_nat (rw - 1))); [reflexivity|lia].
    + destruct (Nat.ltb_spec (Z.to_nat (r - 1)) (Z.to_nat (rw - 1))); [lia|].
      destruct (Nat.ltb_spec (Z.to_nat (r - 1)) (Z.to_nat (rw - 1) + 0)); [lia|].
      replace (Z.to_nat (r - 1) - Z.to_nat (rw - 1) - 0 + Z.to_nat rw)%nat with (Z.to_nat (r + 1 - 1)) by lia.
      destruct (nth_error (rows sh) (Z.to_nat (r + 1 - 1))) as [x|]; cbn [option_map]; [|reflexivity].
      cbn [shift_row r_cells]. now rewrite nth_error_map.
  - destruct (Z.ltb_spec r rw) as [H1|H1]; [reflexivity|].
    assert (E : nth_error (rows sh) (Z.to_nat (r - 1)) = None) by (apply nth_error_None; unfold len in *; lia).
    assert (E' : nth_error (rows sh) (Z.to_nat (r + 1 - 1)) = None) by (apply nth_error_None; unfold len in *; lia).
    now rewrite E, E'.
Qed.

Lemma remove_row_refines rw sh sh' :
  remove_row rw sh = Ok sh' -> forall c r, 1 <= c -> 1 <= r ->
  abs sh' c r = remove_row_spec rw (abs sh) c r.
Proof.
  intros H c r Hc Hr. rewrite abs_cell_at, (remove_row_cell_at rw sh sh' c r H Hc Hr). unfold remove_row_spec.
  destruct (r <? rw); [now rewrite abs_cell_at|]. now rewrite obs_shift_cell, abs_cell_at.
Qed.

(* inserting one row and removing it again restores every cell *)
Lemma insert_remove_row_id rw sh sh1 sh2 :
  insert_rows rw 1 sh = Ok sh1 -> remove_row rw sh1 = Ok sh2 ->
  forall c r, 1 <= c -> 1 <= r -> abs sh2 c r = abs sh c r.
Proof.
  intros H1 H2 c r Hc Hr. rewrite (remove_row_refines rw sh1 sh2 H2 c r Hc Hr). unfold remove_row_spec.
  destruct (Z.ltb_spec r rw) as [Hlt|Hge].
  - rewrite (insert_rows_refines rw 1 sh sh1 H1 c r Hc Hr). unfold shift_rows_spec.
    destruct (Z.ltb_spec r rw); [reflexivity|lia].
  - rewrite (insert_rows_refines rw 1 sh sh1 H1 c (r + 1) Hc ltac:(lia)). unfold shift_rows_spec.
    destruct (Z.ltb_spec (r + 1) rw); [lia|]. destruct (Z.ltb_spec (r + 1) (rw + 1)); [lia|]. f_equal. lia.
Qed.

(* the Dense invariant is kept *)
Lemma insert_rows_Inv rw n sh sh' : Inv sh -> insert_rows rw n sh = Ok sh' -> Inv sh'.
Proof.
  intros HI H. apply Inv_Inv'. apply Inv_Inv' in HI. destruct HI as [H1 H2]. split.
  - unfold insert_rows in H. destruct (rw <? 1) eqn:E1; [discriminate|].
    destruct ((rw >=? TotalRows) || (n >=? TotalRows)); [discriminate|]. destruct (n <? 1) eqn:E3; [discriminate|].
    set (len := Z.of_nat (length (rows sh))) in *.
    destruct ((0 <? len) && (len >=? rw) && (len + n >? TotalRows)); [discriminate|].
    inversion H; subst sh'. cbn [rows]. intros i r Hi.
    destruct (Z.leb_spec rw len) as [Hle|Hgt]; [|eauto].
    rewrite (nth_error_splice (shift_row n)) in Hi by (unfold len in *; lia). rewrite new_rows_length in Hi.
    destruct (Nat.ltb_spec i (Z.to_nat (rw - 1))); [eauto|].
    destruct (Nat.ltb_spec i (Z.to_nat (rw - 1) + Z.to_nat n)).
    + rewrite nth_error_new_rows in Hi. destruct (_ <? _)%nat; [|discriminate]. inversion Hi; subst. cbn. lia.
    + destruct (nth_error (rows sh) (i - Z.to_nat (rw - 1) - Z.to_nat n + Z.to_nat (rw - 1))) as [x|] eqn:Ex; [|discriminate].
      cbn in Hi. inversion Hi; subst. cbn. rewrite (H1 _ _ Ex). lia.
  - intros c r x Hc Hr Hat. rewrite (insert_rows_cell_at rw n sh sh' c r H Hc Hr) in Hat.
    assert (Hn : 1 <= n) by (unfold insert_rows in H; destruct (rw <? 1); [discriminate|];
      destruct ((rw >=? TotalRows) || (n >=? TotalRows)); [discriminate|]; destruct (Z.ltb_spec n 1); [discriminate|lia]).
    destruct (Z.ltb_spec r rw); [eauto|]. destruct (Z.ltb_spec r (rw + n)); [discriminate|].
    destruct (cell_at sh c (r - n)) as [y|] eqn:Ey; [|discriminate]. cbn in Hat. inversion Hat; subst. cbn.
    assert (Hrw : 1 <= rw) by (unfold insert_rows in H; destruct (Z.ltb_spec rw 1); [discriminate|lia]).
    destruct (H2 c (r - n) y Hc ltac:(lia) Ey). lia.
Qed.

Lemma remove_row_Inv rw sh sh' : Inv sh -> remove_row rw sh = Ok sh' -> Inv sh'.
Proof.
  intros HI H. apply Inv_Inv'. apply Inv_Inv' in HI. destruct HI as [H1 H2].
  assert (Hrw : 1 <= rw) by (unfold remove_row in H; destruct (Z.ltb_spec rw 1); [discriminate|lia]).
  split.
  - unfold remove_row in H. destruct (rw <? 1); [discriminate|]. set (len := Z.of_nat (length (rows sh))) in *.
    inversion H; subst sh'. cbn [rows]. intros i r Hi.
    destruct (Z.leb_spec rw len) as [Hle|Hgt]; [|eauto].
    pose proof (nth_error_splice (shift_row (-1)) (rows sh) [] (Z.to_nat (rw - 1)) (Z.to_nat rw) i) as Hs.
    cbn [app length] in Hs. rewrite Hs in Hi by (unfold len in *; lia). clear Hs.
    destruct (Nat.ltb_spec i (Z.to_nat (rw - 1))); [eauto|].
    destruct (Nat.ltb_spec i (Z.to_nat (rw - 1) + 0)); [lia|].
    destruct (nth_error (rows sh) (i - Z.to_nat (rw - 1) - 0 + Z.to_nat rw)) as [x|] eqn:Ex; [|discriminate].
    cbn in Hi. inversion Hi; subst. cbn. rewrite (H1 _ _ Ex). lia.
  - intros c r x Hc Hr Hat. rewrite (remove_row_cell_at rw sh sh' c r H Hc Hr) in Hat.
    destruct (Z.ltb_spec r rw); [eauto|].
    destruct (cell_at sh c (r + 1)) as [y|] eqn:Ey; [|discriminate]. cbn in Hat. inversion Hat; subst. cbn.
    destruct (H2 c (r + 1) y Hc ltac:(lia) Ey). lia.
Qed.

(* a rejected edit changes nothing (by construction of estep), stated for the record *)
Lemma estep_reject_rows rw n sh e : insert_rows rw n sh = Err e -> estep sh (EInsertRows rw n) = sh.
Proof. intros H. cbn. now rewrite H. Qed.
Lemma estep_reject_cols col n sh e : insert_cols col n sh = Err e -> estep sh (EInsertCols col n) = sh.
Proof. intros H. cbn. now rewrite H. Qed.

(* merged ranges (rows): the span rule *)
Lemma adjust_span_insert p1 p2 num k : p1 <= p2 -> 0 <= k ->
  adjust_span p1 p2 num k = if num <=? p1 then (p1 + k, p2 + k) else if num <=? p2 then (p1, p2 + k) else (p1, p2).
Proof. intros H1 H2. unfold adjust_span. destruct (Z.leb_spec 0 k); [reflexivity|lia]. Qed.

(* ---------- columns ---------- *)
Lemma insert_cols_row_cells col n r j : 1 <= col -> 1 <= n ->
  nth_error (r_cells (insert_cols_row col n r)) j =
  let len := Z.of_nat (length (r_cells r)) in
  if col <=? len then
    (if (j <? Z.to_nat (col - 1))%nat then nth_error (r_cells r) j
     else if (j <? Z.to_nat (col - 1) + Z.to_nat n)%nat then Some (filler (col + Z.of_nat (j - Z.to_nat (col - 1))) (r_r r))
     else option_map (shift_cell n 0) (nth_error (r_cells r) (j - Z.to_nat n)))
  else nth_error (r_cells r) j.
Proof.
  intros Hc Hn. unfold insert_cols_row. cbv zeta. destruct (Z.leb_spec col (Z.of_nat (length (r_cells r)))) as [Hle|Hgt]; [|reflexivity].
  cbn [r_cells]. rewrite (nth_error_splice (shift_cell n 0)) by lia. rewrite fillers_length.
  destruct (Nat.ltb_spec j (Z.to_nat (col - 1))); [reflexivity|].
  destruct (Nat.ltb_spec j (Z.to_nat (col - 1) + Z.to_nat n)).
  - rewrite nth_error_fillers. destruct (Nat.ltb_spec (j - Z.to_nat (col - 1)) (Z.to_nat n)); [reflexivity|lia].
  - f_equal. f_equal. lia.
Qed.

Lemma insert_cols_cell_at col n sh sh' c r :
  insert_cols col n sh = Ok sh' -> 1 <= c -> 1 <= r ->
  obs_of (cell_at sh' c r) =
  if c <? col then obs_of (cell_at sh c r) else if c <? col + n then empty_obs else obs_of (cell_at sh (c - n) r).
Proof.
  unfold insert_cols. destruct (Z.ltb_spec col 1); [discriminate|]. destruct (col >? MaxColumns); [discriminate|]. cbn [orb].
  destruct (Z.ltb_spec n 1); [discriminate|]. destruct (n >? MaxColumns); [discriminate|]. cbn [orb].
  destruct (existsb _ (rows sh)); [discriminate|]. intros Hok Hc Hr. inversion Hok; subst sh'. clear Hok.
  unfold cell_at. cbn [rows]. rewrite nth_error_map.
  destruct (nth_error (rows sh) (Z.to_nat (r - 1))) as [x|]; cbn [option_map].
  - rewrite insert_cols_row_cells by lia. cbv zeta.
    destruct (Z.leb_spec col (Z.of_nat (length (r_cells x)))) as [Hle|Hgt].
    + destruct (Z.ltb_spec c col).
      * destruct (Nat.ltb_spec (Z.to_nat (c - 1)) (Z.to_nat (col - 1))); [reflexivity|lia].
      * destruct (Nat.ltb_spec (Z.to_nat (c - 1)) (Z.to_nat (col - 1))); [lia|].
        destruct (Z.ltb_spec c (col + n)).
        -- destruct (Nat.ltb_spec (Z.to_nat (c - 1)) (Z.to_nat (col - 1) + Z.to_nat n)); [reflexivity|lia].
        -- destruct (Nat.ltb_spec (Z.to_nat (c - 1)) (Z.to_nat (col - 1) + Z.to_nat n)); [lia|].
           replace (Z.to_nat (c - 1) - Z.to_nat n)%nat with (Z.to_nat (c - n - 1)) by lia. apply obs_shift_cell.
    + (* the row is shorter than the edit point: every cell at or after it is absent *)
      destruct (Z.ltb_spec c col); [reflexivity|].
      assert (E : nth_error (r_cells x) (Z.to_nat (c - 1)) = None) by (apply nth_error_None; lia). rewrite E.
      destruct (Z.ltb_spec c (col + n)); [reflexivity|].
      assert (E' : nth_error (r_cells x) (Z.to_nat (c - n - 1)) = None) by (apply nth_error_None; lia). now rewrite E'.
  - destruct (c <? col); [reflexivity|]. destruct (c <? col + n); reflexivity.
Qed.

Lemma insert_cols_refines col n sh sh' :
  insert_cols col n sh = Ok sh' -> forall c r, 1 <= c -> 1 <= r ->
  abs sh' c r = shift_cols_spec col n (abs sh) c r.
Proof.
  intros H c r Hc Hr. rewrite abs_cell_at, (insert_cols_cell_at col n sh sh' c r H Hc Hr). unfold shift_cols_spec.
  destruct (c <? col); [now rewrite abs_cell_at|]. destruct (c <? col + n); [reflexivity|]. now rewrite abs_cell_at.
Qed.

Lemma remove_col_cell_at col sh sh' c r :
  remove_col col sh = Ok sh' -> 1 <= c -> 1 <= r ->
  obs_of (cell_at sh' c r) = if c <? col then obs_of (cell_at sh c r) else obs_of (cell_at sh (c + 1) r).
Proof.
  unfold remove_col. destruct (Z.ltb_spec col 1); [discriminate|]. destruct (col >? MaxColumns); [discriminate|]. cbn [orb].
  intros Hok Hc Hr. inversion Hok; subst sh'. clear Hok. unfold cell_at. cbn [rows]. rewrite nth_error_map.
  destruct (nth_error (rows sh) (Z.to_nat (r - 1))) as [x|]; cbn [option_map]; [|now destruct (c <? col)].
  unfold remove_col_row. destruct (Z.leb_spec col (Z.of_nat (length (r_cells x)))) as [Hle|Hgt]; cbn [r_cells].
  - pose proof (nth_error_splice (shift_cell (-1) 0) (r_cells x) [] (Z.to_nat (col - 1)) (Z.to_nat col) (Z.to_nat (c - 1))) as Hs.
    cbn [app length] in Hs. rewrite Hs by lia. clear Hs.
    destruct (Z.ltb_spec c col).
    + destruct (Nat.ltb_spec (Z.to_nat (c - 1)) (Z.to_nat (col - 1))); [reflexivity|lia].
    + destruct (Nat.ltb_spec (Z.to_nat (c - 1)) (Z.to_nat (col - 1))); [lia|].
      destruct (Nat.ltb_spec (Z.to_nat (c - 1)) (Z.to_nat (col - 1) + 0)); [lia|].
      replace (Z.to_nat (c - 1) - Z.to_nat (col - 1) - 0 + Z.to_nat col)%nat with (Z.to_nat (c + 1 - 1)) by lia. apply obs_shift_cell.
  - destruct (Z.ltb_spec c col); [reflexivity|].
    assert (E : nth_error (r_cells x) (Z.to_nat (c - 1)) = None) by (apply nth_error_None; lia).
    assert (E' : nth_error (r_cells x) (Z.to_nat (c + 1 - 1)) = None) by (apply nth_error_None; lia). now rewrite E, E'.
Qed.

Lemma remove_col_refines col sh sh' :
  remove_col col sh = Ok sh' -> forall c r, 1 <= c -> 1 <= r ->
  abs sh' c r = remove_col_spec col (abs sh) c r.
Proof.
  intros H c r Hc Hr. rewrite abs_cell_at, (remove_col_cell_at col sh sh' c r H Hc Hr). unfold remove_col_spec.
  destruct (c <? col); now rewrite abs_cell_at.
Qed.

Lemma insert_remove_col_id col sh sh1 sh2 :
  insert_cols col 1 sh = Ok sh1 -> remove_col col sh1 = Ok sh2 ->
  forall c r, 1 <= c -> 1 <= r -> abs sh2 c r = abs sh c r.
Proof.
  intros H1 H2 c r Hc Hr. rewrite (remove_col_refines col sh1 sh2 H2 c r Hc Hr). unfold remove_col_spec.
  destruct (Z.ltb_spec c col) as [Hlt|Hge].
  - rewrite (insert_cols_refines col 1 sh sh1 H1 c r Hc Hr). unfold shift_cols_spec. destruct (Z.ltb_spec c col); [reflexivity|lia].
  - rewrite (insert_cols_refines col 1 sh sh1 H1 (c + 1) r ltac:(lia) Hr). unfold shift_cols_spec.
    destruct (Z.ltb_spec (c + 1) col); [lia|]. destruct (Z.ltb_spec (c + 1) (col + 1)); [lia|]. f_equal. lia.
Qed.
