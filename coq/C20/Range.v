(* C20 model, part 2: the range codecs built on the cell codecs (lib.go:rangeRefToCoordinates, cellRefsToCoordinates,
   sortCoordinates, coordinatesToRangeRef).  They are what merged cells, data validations, conditional formats,
   tables, auto filters and the structural-edit helpers use to read and write "A1:B2" references. *)
From VF Require Import Base.Prelude Generated.Consts C20.Model.

Definition E_PARAM : Z := 20.

(* strings.ReplaceAll(ref, "$", "") *)
Definition strip36 (s : bytes) : bytes := filter (fun b => negb (b =? 36)) s.

(* strings.Split(s, ":"): the fields between the colons *)
Fixpoint split58 (s : bytes) (cur : bytes) : list bytes :=
  match s with
  | [] => [rev cur]
  | b :: r => if b =? 58 then rev cur :: split58 r [] else split58 r (b :: cur)
  end.

Definition range_ref_to_coords (ref : bytes) : res (Z * Z * Z * Z) :=
  match split58 (strip36 ref) [] with
  | a :: b :: _ =>
    match cell_name_to_coords a with
    | Ok (c1, r1) =>
      match cell_name_to_coords b with
      | Ok (c2, r2) => Ok (c1, r1, c2, r2)
      | Err e => Err e
      | Panic p => Panic p
      end
    | Err e => Err e
    | Panic p => Panic p
    end
  | _ => Err E_PARAM
  end.

(* sortCoordinates: C1:B3 -> B1:C3 *)
Definition sort_coords (c : Z * Z * Z * Z) : Z * Z * Z * Z :=
  let '(c1, r1, c2, r2) := c in
  let '(a1, a2) := if c2 <? c1 then (c2, c1) else (c1, c2) in
  let '(b1, b2) := if r2 <? r1 then (r2, r1) else (r1, r2) in
  (a1, b1, a2, b2).

Definition coords_to_range_ref (c : Z * Z * Z * Z) (abs : bool) : res bytes :=
  let '(c1, r1, c2, r2) := c in
  match coords_to_cell_name c1 r1 abs with
  | Ok a =>
    match coords_to_cell_name c2 r2 abs with
    | Ok b => Ok (a ++ [58] ++ b)
    | Err e => Err e
    | Panic p => Panic p
    end
  | Err e => Err e
  | Panic p => Panic p
  end.
