(* C20 proofs, part 2: the range codecs are inverse on every pair of cells of the grid, for both $ forms, and
   sortCoordinates returns the same set of corner coordinates ordered. *)
From VF Require Import Base.Prelude Base.PreludeFacts Generated.Consts C20.Model C20.Proofs C20.Range.

Lemma strip36_app a b : strip36 (a ++ b) = strip36 a ++ strip36 b.
Proof. unfold strip36. apply filter_app. Qed.

Lemma strip36_id l : forallb (fun b => negb (b =? 36)) l = true -> strip36 l = l.
Proof.
  induction l as [|x l IH]; cbn [forallb]; [reflexivity|].
  intros H. apply andb_prop in H. destruct H as [H1 H2]. unfold strip36 in *. cbn [filter]. rewrite H1, IH by assumption. reflexivity.
Qed.

Lemma upper_not36 l : forallb is_upper l = true -> forallb (fun b => negb (b =? 36)) l = true.
Proof.
  induction l as [|x l IH]; cbn [forallb]; [reflexivity|].
  intros H. apply andb_prop in H. destruct H as [H1 H2]. rewrite IH by assumption.
  unfold is_upper in H1. destruct (Z.eqb_spec x 36); [lia|reflexivity].
Qed.
Lemma digits_not36 l : forallb is_digit l = true -> forallb (fun b => negb (b =? 36)) l = true.
Proof.
  induction l as [|x l IH]; cbn [forallb]; [reflexivity|].
  intros H. apply andb_prop in H. destruct H as [H1 H2]. rewrite IH by assumption.
  unfold is_digit in H1. destruct (Z.eqb_spec x 36); [lia|reflexivity].
Qed.
Lemma upper_not58 l : forallb is_upper l = true -> forallb (fun b => negb (b =? 58)) l = true.
Proof.
  induction l as [|x l IH]; cbn [forallb]; [reflexivity|].
  intros H. apply andb_prop in H. destruct H as [H1 H2]. rewrite IH by assumption.
  unfold is_upper in H1. destruct (Z.eqb_spec x 58); [lia|reflexivity].
Qed.
Lemma digits_not58 l : forallb is_digit l = true -> forallb (fun b => negb (b =? 58)) l = true.
Proof.
  induction l as [|x l IH]; cbn [forallb]; [reflexivity|].
  intros H. apply andb_prop in H. destruct H as [H1 H2]. rewrite IH by assumption.
  unfold is_digit in H1. destruct (Z.eqb_spec x 58); [lia|reflexivity].
Qed.

Lemma split58_no58 : forall l cur, forallb (fun b => negb (b =? 58)) l = true -> split58 l cur = [rev cur ++ l].
Proof.
  induction l as [|x l IH]; intros cur H; cbn [split58 forallb] in *.
  - rewrite app_nil_r. reflexivity.
  - apply andb_prop in H. destruct H as [H1 H2]. destruct (x =? 58); [discriminate|].
    rewrite IH by assumption. cbn [rev]. rewrite <- app_assoc. reflexivity.
Qed.

Lemma split58_two a b : forallb (fun x => negb (x =? 58)) a = true -> forallb (fun x => negb (x =? 58)) b = true ->
  split58 (a ++ [58] ++ b) [] = [a; b].
Proof.
  intros Ha Hb.
  assert (G : forall a cur, forallb (fun x => negb (x =? 58)) a = true -> split58 (a ++ [58] ++ b) cur = [rev cur ++ a; b]).
  { induction a0 as [|x a' IH]; intros cur H; cbn [app split58 forallb] in *.
    - rewrite Z.eqb_refl. rewrite (split58_no58 b [] Hb). rewrite app_nil_r. reflexivity.
    - apply andb_prop in H. destruct H as [H1 H2]. destruct (x =? 58); [discriminate|].
      rewrite IH by assumption. cbn [rev]. rewrite <- app_assoc. reflexivity. }
  apply (G a [] Ha).
Qed.

(* the shape of a rendered cell name *)
Lemma cell_name_shape c r abs : 1 <= c <= MaxColumns -> 1 <= r <= TotalRows ->
  exists name, forallb is_upper name = true /\
    coords_to_cell_name c r abs = Ok ((if abs then [36] else []) ++ name ++ (if abs then [36] else []) ++ itoa r) /\
    cell_name_to_coords (name ++ itoa r) = Ok (c, r).
Proof.
  intros Hc Hr. destruct (col_roundtrip c Hc) as (name & Hn & Hback & Hne & Hup).
  exists name. split; [exact Hup|].
  assert (E1 : (c <? 1) || (r <? 1) = false) by lia.
  assert (E2 : (r >? TotalRows) = false) by lia.
  split.
  - unfold coords_to_cell_name. rewrite E1, E2, Hn. reflexivity.
  - destruct (cell_roundtrip c r false Hc Hr) as (s & Hs & Hb).
    unfold coords_to_cell_name in Hs. rewrite E1, E2, Hn in Hs. cbn [app] in Hs. inversion Hs; subst s. exact Hb.
Qed.

Theorem range_roundtrip c1 r1 c2 r2 abs :
  1 <= c1 <= MaxColumns -> 1 <= r1 <= TotalRows -> 1 <= c2 <= MaxColumns -> 1 <= r2 <= TotalRows ->
  exists s, coords_to_range_ref (c1, r1, c2, r2) abs = Ok s /\ range_ref_to_coords s = Ok (c1, r1, c2, r2).
Proof.
  intros H1 H2 H3 H4.
  destruct (cell_name_shape c1 r1 abs H1 H2) as (n1 & U1 & E1 & B1).
  destruct (cell_name_shape c2 r2 abs H3 H4) as (n2 & U2 & E2 & B2).
  unfold coords_to_range_ref. rewrite E1, E2. eexists. split; [reflexivity|].
  unfold range_ref_to_coords.
  assert (D1 : forallb is_digit (itoa r1) = true) by (apply n2c_nonneg_digits; lia).
  assert (D2 : forallb is_digit (itoa r2) = true) by (apply n2c_nonneg_digits; lia).
  assert (S36 : forall (b : bool), strip36 (if b then [36] else []) = []) by (intros [|]; reflexivity).
  rewrite !strip36_app, !S36. cbn [app].
  rewrite (strip36_id n1 (upper_not36 _ U1)), (strip36_id n2 (upper_not36 _ U2)).
  rewrite (strip36_id _ (digits_not36 _ D1)), (strip36_id _ (digits_not36 _ D2)).
  change (strip36 [58]) with [58].
  replace (n1 ++ itoa r1 ++ [58] ++ n2 ++ itoa r2) with ((n1 ++ itoa r1) ++ [58] ++ (n2 ++ itoa r2)) by (rewrite <- !app_assoc; reflexivity).
  rewrite split58_two.
  - rewrite B1, B2. reflexivity.
  - rewrite forallb_app, (upper_not58 _ U1), (digits_not58 _ D1). reflexivity.
  - rewrite forallb_app, (upper_not58 _ U2), (digits_not58 _ D2). reflexivity.
Qed.

(* sortCoordinates orders each pair of corner coordinates and keeps them *)
Theorem sort_coords_spec c1 r1 c2 r2 :
  sort_coords (c1, r1, c2, r2) = (Z.min c1 c2, Z.min r1 r2, Z.max c1 c2, Z.max r1 r2).
Proof.
  unfold sort_coords. destruct (Z.ltb_spec c2 c1); destruct (Z.ltb_spec r2 r1);
    repeat (first [rewrite Z.min_l by lia | rewrite Z.min_r by lia | rewrite Z.max_l by lia | rewrite Z.max_r by lia]); reflexivity.
Qed.

Theorem sort_coords_idem c : sort_coords (sort_coords c) = sort_coords c.
Proof.
  destruct c as [[[c1 r1] c2] r2]. rewrite !sort_coords_spec.
  rewrite (Z.min_l (Z.min c1 c2)), (Z.min_l (Z.min r1 r2)), (Z.max_r (Z.min c1 c2)), (Z.max_r (Z.min r1 r2)) by lia. reflexivity.
Qed.
