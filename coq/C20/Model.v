(* C20 model: reference codecs of lib.go (after the three fix: commits). *)
From VF Require Import Base.Prelude Generated.Consts.

(* error classes *)
Definition E_INVALID_COL : Z := 1.   (* newInvalidColumnNameError *)
Definition E_COLNUM : Z := 2.        (* ErrColumnNumber *)
Definition E_INVALID_CELL : Z := 3.  (* newCellNameToCoordinatesError / newInvalidCellNameError *)
Definition E_MAXROWS : Z := 4.       (* ErrMaxRows *)
Definition E_COORDS : Z := 5.        (* newCoordinatesToCellNameError *)
Definition E_INVALID_ROW : Z := 6.   (* newInvalidRowNumberError *)

(* lib.go:ColumnNameToNumber — bytes are visited from the last to the first;
   col and multi are Go ints (wrap64). *)
Fixpoint col_loop (rev_name : bytes) (col multi : Z) : res Z :=
  match rev_name with
  | [] => Ok col
  | r :: rest =>
    if is_upper r then
      let col' := wrap64 (col + wrap64 ((r - 65 + 1) * multi)) in
      if col' >? MaxColumns then Err E_COLNUM else col_loop rest col' (wrap64 (multi * 26))
    else if is_lower r then
      let col' := wrap64 (col + wrap64 ((r - 97 + 1) * multi)) in
      if col' >? MaxColumns then Err E_COLNUM else col_loop rest col' (wrap64 (multi * 26))
    else Err E_INVALID_COL
  end.

Definition col_name_to_number (name : bytes) : res Z :=
  match name with
  | [] => Err E_INVALID_COL
  | _ => col_loop (rev name) 0 1
  end.

(* lib.go:ColumnNumberToName *)
Fixpoint n2c_loop (fuel : nat) (num : Z) (acc : bytes) : bytes :=
  match fuel with
  | O => acc
  | S f => if num >? 0 then n2c_loop f ((num - 1) / 26) (((num - 1) mod 26 + 65) :: acc) else acc
  end.

Definition col_number_to_name (num : Z) : res bytes :=
  if (num <? MinColumns) || (num >? MaxColumns) then Err E_COLNUM
  else Ok (n2c_loop 64 num []).

(* lib.go:SplitCellName *)
Definition is_alpha_d (b : Z) : bool := is_letter b || (b =? 36).
Definition trim_prefix36 (l : bytes) : bytes :=
  match l with
  | c :: r => if c =? 36 then r else l
  | [] => []
  end.
Definition trim_suffix36 (l : bytes) : bytes := rev (trim_prefix36 (rev l)).
Definition is_nil (l : bytes) : bool := match l with [] => true | _ => false end.
Definition hd_is (c : Z) (l : bytes) : bool := match l with x :: _ => x =? c | [] => false end.

Definition split_cell_name (cell : bytes) : res (bytes * Z) :=
  match index_first is_alpha_d cell with
  | Some O =>
    match index_last is_alpha_d cell with
    | Some i =>
      if (S i <? length cell)%nat then
        let col := trim_suffix36 (trim_prefix36 (firstn (S i) cell)) in
        let rowStr := skipn (S i) cell in
        match atoi rowStr with
        | Some row =>
          if (row >? 0) && negb (is_nil col) && negb (existsb (Z.eqb 36) col) && negb (hd_is 43 rowStr)
          then Ok (col, row) else Err E_INVALID_CELL
        | None => Err E_INVALID_CELL
        end
      else Err E_INVALID_CELL
    | None => Err E_INVALID_CELL
    end
  | _ => Err E_INVALID_CELL
  end.

(* lib.go:JoinCellName *)
Definition norm_col (col : bytes) : bytes :=
  flat_map (fun b => if is_upper b then [b] else if is_lower b then [b - 32] else []) col.
Definition join_cell_name (col : bytes) (row : Z) : res bytes :=
  let nc := norm_col col in
  if is_nil col || negb (Nat.eqb (length col) (length nc)) then Err E_INVALID_COL
  else if row <? 1 then Err E_INVALID_ROW
  else Ok (nc ++ itoa row).

(* lib.go:CellNameToCoordinates *)
Definition cell_name_to_coords (cell : bytes) : res (Z * Z) :=
  match split_cell_name cell with
  | Ok (colName, row) =>
    if row >? TotalRows then Err E_MAXROWS
    else match col_name_to_number colName with
         | Ok col => Ok (col, row)
         | Err e => Err e
         | Panic p => Panic p
         end
  | Err _ => Err E_INVALID_CELL
  | Panic p => Panic p
  end.

(* lib.go:CoordinatesToCellName *)
Definition coords_to_cell_name (col row : Z) (abs : bool) : res bytes :=
  if (col <? 1) || (row <? 1) then Err E_COORDS
  else if row >? TotalRows then Err E_MAXROWS
  else let sign := if abs then [36] else [] in
       match col_number_to_name col with
       | Ok n => Ok (sign ++ n ++ sign ++ itoa row)
       | Err e => Err e
       | Panic p => Panic p
       end.

(* what "A1-style" means (specification side) *)
Definition a1_style (s : bytes) : Prop :=
  exists (d1 d2 : bool) (letters digits : bytes),
    s = (if d1 then [36] else []) ++ letters ++ (if d2 then [36] else []) ++ digits /\
    letters <> [] /\ forallb is_letter letters = true /\
    digits <> [] /\ forallb is_digit digits = true.
