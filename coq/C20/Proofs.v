From VF Require Import Base.Prelude Base.PreludeFacts Generated.Consts C20.Model.
From Coq Require Import ZifyBool.

(* ---------- ranges for finite sweeps ---------- *)
Definition zrange (lo : Z) (n : nat) : list Z := map (fun i => lo + Z.of_nat i) (seq 0 n).

Lemma in_zrange lo n x : lo <= x < lo + Z.of_nat n -> In x (zrange lo n).
Proof.
  intros H. unfold zrange. apply in_map_iff. exists (Z.to_nat (x - lo)). split; [lia|].
  apply in_seq. lia.
Qed.

(* ---------- ColumnNameToNumber without wrap-around ---------- *)
Definition letter_val (r : Z) : Z := if is_upper r then r - 64 else r - 96.
Fixpoint b26 (rev_name : bytes) : Z :=
  match rev_name with [] => 0 | r :: rest => letter_val r + 26 * b26 rest end.

Lemma col_loop_ok : forall l col multi n,
  0 <= col <= MaxColumns -> 1 <= multi <= 425984 ->
  col_loop l col multi = Ok n ->
  forallb is_letter l = true /\ n = col + multi * b26 l /\ 0 <= n <= MaxColumns.
Proof.
  unfold MaxColumns.
  induction l as [|r rest IH]; intros col multi n Hc Hm H; cbn [col_loop] in H.
  - inversion H; subst. cbn. split; [reflexivity|]. lia.
  - cbn [forallb b26]. unfold letter_val.
    destruct (is_upper r) eqn:Hu.
    + assert (Hlr : is_letter r = true) by (unfold is_letter; now rewrite Hu). rewrite Hlr.
      unfold is_upper in Hu.
      rewrite (wrap64_small ((r - 65 + 1) * multi)) in H by (unfold minInt64, maxInt64; nia).
      rewrite (wrap64_small (col + _)) in H by (unfold minInt64, maxInt64; nia).
      unfold MaxColumns in H.
      destruct (Z.gtb_spec (col + (r - 65 + 1) * multi) 16384) as [Hgt|Hle]; [discriminate|].
      assert (multi <= 16384) by nia.
      rewrite (wrap64_small (multi * 26)) in H by (unfold minInt64, maxInt64; lia).
      apply IH in H; [|nia|lia]. destruct H as (Ha & Hn & Hr).
      rewrite Ha. split; [reflexivity|]. split; [|lia]. rewrite Hn. ring.
    + destruct (is_lower r) eqn:Hl; [|discriminate].
      assert (Hlr : is_letter r = true) by (unfold is_letter; rewrite Hl; now destruct (is_upper r)). rewrite Hlr.
      unfold is_lower in Hl.
      rewrite (wrap64_small ((r - 97 + 1) * multi)) in H by (unfold minInt64, maxInt64; nia).
      rewrite (wrap64_small (col + _)) in H by (unfold minInt64, maxInt64; nia).
      unfold MaxColumns in H.
      destruct (Z.gtb_spec (col + (r - 97 + 1) * multi) 16384) as [Hgt|Hle]; [discriminate|].
      assert (multi <= 16384) by nia.
      rewrite (wrap64_small (multi * 26)) in H by (unfold minInt64, maxInt64; lia).
      apply IH in H; [|nia|lia]. destruct H as (Ha & Hn & Hr).
      rewrite Ha. split; [reflexivity|]. split; [|lia]. rewrite Hn. ring.
Qed.

Lemma letter_val_pos r : is_letter r = true -> 1 <= letter_val r <= 26.
Proof. unfold is_letter, letter_val, is_upper, is_lower. destruct ((65 <=? r) && (r <=? 90)) eqn:E; lia. Qed.

Lemma b26_nonneg l : forallb is_letter l = true -> 0 <= b26 l.
Proof.
  induction l as [|r rest IH]; cbn [forallb b26]; [lia|].
  intros H. apply andb_prop in H. destruct H as [H1 H2].
  pose proof (letter_val_pos r H1). specialize (IH H2). lia.
Qed.

Lemma col_name_ok_shape s n :
  col_name_to_number s = Ok n ->
  s <> [] /\ forallb is_letter s = true /\ (length s <= 3)%nat /\ 1 <= n <= MaxColumns.
Proof.
  unfold col_name_to_number. destruct s as [|c0 s0] eqn:Es; [discriminate|]. rewrite <- Es.
  intros H. apply col_loop_ok in H; [|unfold MaxColumns; lia|lia].
  destruct H as (Ha & Hn & Hr). unfold MaxColumns in *.
  assert (Hl : forallb is_letter s = true).
  { rewrite forallb_forall in *. intros x Hx. apply Ha. now apply -> in_rev. }
  split; [subst; discriminate|]. split; [assumption|].
  assert (Hne : rev s <> []).
  { subst s. cbn [rev]. intro E. apply app_eq_nil in E. destruct E; discriminate. }
  rewrite <- (rev_length s).
  destruct (rev s) as [|a [|b [|c [|d l']]]]; cbn [length]; cbn [b26 forallb] in *.
  - contradiction.
  - apply andb_prop in Ha. destruct Ha as [Ha _]. pose proof (letter_val_pos a Ha). lia.
  - repeat (match goal with H : (_ && _)%bool = true |- _ => apply andb_prop in H; destruct H end).
    pose proof (letter_val_pos a). pose proof (letter_val_pos b). lia.
  - repeat (match goal with H : (_ && _)%bool = true |- _ => apply andb_prop in H; destruct H end).
    pose proof (letter_val_pos a). pose proof (letter_val_pos b). pose proof (letter_val_pos c). lia.
  - exfalso.
    repeat (match goal with H : (_ && _)%bool = true |- _ => apply andb_prop in H; destruct H end).
    pose proof (letter_val_pos a). pose proof (letter_val_pos b). pose proof (letter_val_pos c).
    pose proof (letter_val_pos d). pose proof (b26_nonneg l'). lia.
Qed.

(* case-insensitivity *)
Lemma col_loop_upper : forall l col multi,
  col_loop (map to_upper_b l) col multi = col_loop l col multi.
Proof.
  induction l as [|r rest IH]; intros col multi; cbn [map col_loop]; [reflexivity|].
  destruct (is_lower r) eqn:Hl.
  - assert (E : to_upper_b r = r - 32) by (unfold to_upper_b; now rewrite Hl). rewrite E.
    assert (Hu : is_upper (r - 32) = true) by (unfold is_upper, is_lower in *; lia).
    assert (Hu' : is_upper r = false) by (unfold is_upper, is_lower in *; lia).
    rewrite Hu, Hu'. replace (r - 32 - 65 + 1) with (r - 97 + 1) by lia.
    destruct (_ >? MaxColumns); [reflexivity|]. apply IH.
  - assert (E : to_upper_b r = r) by (unfold to_upper_b; now rewrite Hl). rewrite E, Hl.
    destruct (is_upper r); [|reflexivity].
    destruct (_ >? MaxColumns); [reflexivity|]. apply IH.
Qed.

Lemma col_name_upper s : col_name_to_number (to_upper s) = col_name_to_number s.
Proof.
  unfold col_name_to_number, to_upper. destruct s as [|c s]; [reflexivity|].
  cbn [map]. rewrite <- map_cons, <- map_rev. apply col_loop_upper.
Qed.

(* ---------- finite sweeps (closed by the VM; bounds are in the statements) ---------- *)
Definition rt_ok (n : Z) : bool :=
  match col_number_to_name n with
  | Ok s => match col_name_to_number s with
            | Ok m => (m =? n) && negb (is_nil s) && forallb is_upper s
            | _ => false
            end
  | _ => false
  end.

Lemma sweep_columns : forallb rt_ok (zrange 1 (Z.to_nat MaxColumns)) = true.
Proof. vm_cast_no_check (eq_refl true). Qed.

Definition U : list Z := zrange 65 26.
Definition all_upper3 : list bytes :=
  map (fun a => [a]) U ++
  flat_map (fun a => map (fun b => [a; b]) U) U ++
  flat_map (fun a => flat_map (fun b => map (fun c => [a; b; c]) U) U) U.

Definition canon_ok (s : bytes) : bool :=
  match col_name_to_number s with
  | Ok n => match col_number_to_name n with Ok s' => bytes_eqb s' s | _ => false end
  | _ => true
  end.

Lemma sweep_names : forallb canon_ok all_upper3 = true.
Proof. vm_cast_no_check (eq_refl true). Qed.

Lemma in_U a : is_upper a = true -> In a U.
Proof. intros H. apply in_zrange. unfold is_upper in H. lia. Qed.

Lemma in_all_upper3 s :
  s <> [] -> (length s <= 3)%nat -> forallb is_upper s = true -> In s all_upper3.
Proof.
  intros Hne Hlen Hu. unfold all_upper3.
  destruct s as [|a [|b [|c [|d l]]]]; cbn [length] in Hlen; try contradiction; try lia;
    cbn [forallb] in Hu;
    repeat (match goal with H : (_ && _)%bool = true |- _ => apply andb_prop in H; destruct H end).
  - apply in_or_app. left. apply in_map_iff. exists a. split; [reflexivity|now apply in_U].
  - apply in_or_app. right. apply in_or_app. left.
    apply in_flat_map. exists a. split; [now apply in_U|].
    apply in_map_iff. exists b. split; [reflexivity|now apply in_U].
  - apply in_or_app. right. apply in_or_app. right.
    apply in_flat_map. exists a. split; [now apply in_U|].
    apply in_flat_map. exists b. split; [now apply in_U|].
    apply in_map_iff. exists c. split; [reflexivity|now apply in_U].
Qed.

Lemma bytes_eqb_eq a : forall b, bytes_eqb a b = true -> a = b.
Proof.
  induction a as [|x a IH]; intros [|y b]; cbn; try discriminate; [reflexivity|].
  intros H. apply andb_prop in H. destruct H as [H1 H2].
  apply Z.eqb_eq in H1. subst. f_equal. now apply IH.
Qed.

Lemma to_upper_all_upper s : forallb is_letter s = true -> forallb is_upper (to_upper s) = true.
Proof.
  unfold to_upper. induction s as [|x s IH]; cbn [map forallb]; [reflexivity|].
  intros H. apply andb_prop in H. destruct H as [H1 H2]. rewrite IH by assumption.
  unfold to_upper_b, is_letter, is_upper, is_lower in *.
  destruct ((97 <=? x) && (x <=? 122)) eqn:E; lia.
Qed.

(* ---------- property lemmas ---------- *)

Lemma col_roundtrip n :
  1 <= n <= MaxColumns ->
  exists s, col_number_to_name n = Ok s /\ col_name_to_number s = Ok n /\
            s <> [] /\ forallb is_upper s = true.
Proof.
  intros Hn. pose proof sweep_columns as Hs. rewrite forallb_forall in Hs.
  specialize (Hs n). unfold rt_ok in Hs.
  assert (Hin : In n (zrange 1 (Z.to_nat MaxColumns))) by (apply in_zrange; unfold MaxColumns in *; lia).
  specialize (Hs Hin).
  destruct (col_number_to_name n) as [s| |]; try discriminate.
  destruct (col_name_to_number s) as [m| |] eqn:Em; try discriminate.
  apply andb_prop in Hs. destruct Hs as [Hs H3]. apply andb_prop in Hs. destruct Hs as [H1 H2].
  apply Z.eqb_eq in H1. subst m. exists s. repeat split; try assumption.
  destruct s; [discriminate|discriminate].
Qed.

Lemma col_canonical s n :
  col_name_to_number s = Ok n ->
  1 <= n <= MaxColumns /\ col_number_to_name n = Ok (to_upper s).
Proof.
  intros H. destruct (col_name_ok_shape s n H) as (Hne & Hl & Hlen & Hr).
  split; [assumption|].
  pose proof sweep_names as Hs. rewrite forallb_forall in Hs.
  specialize (Hs (to_upper s)). unfold canon_ok in Hs.
  rewrite col_name_upper, H in Hs.
  assert (Hin : In (to_upper s) all_upper3).
  { apply in_all_upper3.
    - destruct s; [contradiction|discriminate].
    - unfold to_upper. now rewrite map_length.
    - now apply to_upper_all_upper. }
  specialize (Hs Hin).
  destruct (col_number_to_name n) as [s'| |]; try discriminate.
  apply bytes_eqb_eq in Hs. now subst.
Qed.

(* SplitCellName on a well-shaped reference *)
Definition sg (d : bool) : bytes := if d then [36] else [].

Lemma not_alpha_digits ds : forallb is_digit ds = true -> forallb (fun y => negb (is_alpha_d y)) ds = true.
Proof.
  induction ds as [|x ds IH]; cbn [forallb]; [reflexivity|].
  intros H. apply andb_prop in H. destruct H as [H1 H2]. rewrite IH by assumption.
  unfold is_alpha_d, is_letter, is_upper, is_lower, is_digit in *. lia.
Qed.

Lemma upper_no36 l : forallb is_letter l = true -> existsb (Z.eqb 36) l = false.
Proof.
  induction l as [|x l IH]; cbn [forallb existsb]; [reflexivity|].
  intros H. apply andb_prop in H. destruct H as [H1 H2]. rewrite IH by assumption.
  unfold is_letter, is_upper, is_lower in H1. lia.
Qed.

Lemma trim_prefix_sg d x rest :
  is_letter x = true -> trim_prefix36 (sg d ++ x :: rest) = x :: rest.
Proof.
  intros Hx. destruct d; cbn; [reflexivity|].
  unfold is_letter, is_upper, is_lower in Hx.
  destruct (Z.eqb_spec x 36); [lia|reflexivity].
Qed.

Lemma trim_suffix_sg d name :
  name <> [] -> forallb is_letter name = true -> trim_suffix36 (name ++ sg d) = name.
Proof.
  intros Hne Hl. unfold trim_suffix36. rewrite rev_app_distr.
  assert (Hl' : forallb is_letter (rev name) = true).
  { rewrite forallb_forall in *. intros x Hx. apply Hl. now apply in_rev. }
  replace (rev (sg d)) with (sg d) by (destruct d; reflexivity).
  destruct (rev name) as [|y rn] eqn:E.
  - exfalso. apply Hne. rewrite <- (rev_involutive name), E. reflexivity.
  - cbn [forallb] in Hl'. apply andb_prop in Hl'. destruct Hl' as [Hy _].
    rewrite trim_prefix_sg by assumption. rewrite <- E. apply rev_involutive.
Qed.

Lemma split_ok d1 d2 name digits r :
  name <> [] -> forallb is_letter name = true ->
  forallb is_digit digits = true -> atoi digits = Some r -> r > 0 ->
  split_cell_name (sg d1 ++ name ++ sg d2 ++ digits) = Ok (name, r).
Proof.
  intros Hne Hl Hd Ha Hr.
  assert (Hdn : digits <> []) by (intro E; subst; discriminate).
  set (colp := sg d1 ++ name ++ sg d2).
  assert (Hfull : sg d1 ++ name ++ sg d2 ++ digits = colp ++ digits)
    by (unfold colp; now rewrite <- !app_assoc).
  rewrite Hfull.
  assert (Hlast : exists a x, colp = a ++ [x] /\ is_alpha_d x = true).
  { destruct d2.
    - exists (sg d1 ++ name), 36. split; [unfold colp; cbn; now rewrite app_assoc|reflexivity].
    - destruct (exists_last Hne) as (a & x & Ex). exists (sg d1 ++ a), x. split.
      + unfold colp. cbn [sg]. rewrite app_nil_r, Ex. now rewrite app_assoc.
      + rewrite Ex in Hl. rewrite forallb_app in Hl. apply andb_prop in Hl. destruct Hl as [_ Hx].
        cbn in Hx. unfold is_alpha_d. apply andb_prop in Hx. destruct Hx as [Hx _]. now rewrite Hx. }
  destruct Hlast as (a & x & Ecolp & Hx).
  assert (Hhd : exists y nm, name = y :: nm /\ is_letter y = true).
  { destruct name as [|y nm]; [contradiction|]. exists y, nm. split; [reflexivity|].
    cbn in Hl. apply andb_prop in Hl. now destruct Hl. }
  destruct Hhd as (y & nm & En & Hy).
  assert (Hfirst : index_first is_alpha_d (colp ++ digits) = Some O).
  { unfold colp. rewrite En. destruct d1; cbn; [reflexivity|]. unfold is_alpha_d. now rewrite Hy. }
  unfold split_cell_name. rewrite Hfirst.
  rewrite Ecolp, <- app_assoc. cbn [app].
  rewrite index_last_app by (try assumption; now apply not_alpha_digits).
  assert (Hlen : (S (length a) <? length (a ++ x :: digits))%nat = true).
  { apply Nat.ltb_lt. rewrite app_length. cbn [length]. destruct digits; [contradiction|cbn; lia]. }
  rewrite Hlen.
  assert (Hfn : firstn (S (length a)) (a ++ x :: digits) = colp).
  { rewrite Ecolp. replace (a ++ x :: digits) with ((a ++ [x]) ++ digits) by (now rewrite <- app_assoc).
    replace (S (length a)) with (length (a ++ [x]) + 0)%nat by (rewrite app_length; cbn; lia).
    rewrite firstn_app_2. cbn. now rewrite app_nil_r. }
  assert (Hsk : skipn (S (length a)) (a ++ x :: digits) = digits).
  { replace (a ++ x :: digits) with ((a ++ [x]) ++ digits) by (now rewrite <- app_assoc).
    replace (S (length a)) with (length (a ++ [x])) by (rewrite app_length; cbn; lia).
    rewrite skipn_app, skipn_all, Nat.sub_diag. reflexivity. }
  rewrite Hfn, Hsk. unfold colp.
  assert (Etp : trim_prefix36 (sg d1 ++ name ++ sg d2) = name ++ sg d2).
  { rewrite En. cbn [app]. now apply trim_prefix_sg. }
  rewrite Etp, trim_suffix_sg by assumption.
  rewrite Ha.
  assert (H1 : (r >? 0) = true) by lia.
  assert (H2 : is_nil name = false) by (rewrite En; reflexivity).
  assert (H3 : existsb (Z.eqb 36) name = false) by now apply upper_no36.
  assert (H4 : hd_is 43 digits = false).
  { destruct digits as [|dg ds]; [contradiction|]. cbn in *.
    apply andb_prop in Hd. destruct Hd as [Hd _]. unfold is_digit in Hd. lia. }
  rewrite H1, H2, H3, H4. reflexivity.
Qed.

Lemma n2c_nonneg_digits r : 0 <= r -> forallb is_digit (itoa r) = true.
Proof.
  intros Hr. unfold itoa. destruct (Z.ltb_spec r 0); [lia|]. now apply itoa_aux_digits.
Qed.

Lemma upper_is_letter l : forallb is_upper l = true -> forallb is_letter l = true.
Proof.
  induction l as [|x l IH]; cbn [forallb]; [reflexivity|].
  intros H. apply andb_prop in H. destruct H as [H1 H2]. rewrite IH by assumption.
  unfold is_letter. now rewrite H1.
Qed.

Lemma cell_roundtrip c r abs :
  1 <= c <= MaxColumns -> 1 <= r <= TotalRows ->
  exists s, coords_to_cell_name c r abs = Ok s /\ cell_name_to_coords s = Ok (c, r).
Proof.
  intros Hc Hr. destruct (col_roundtrip c Hc) as (name & Hn & Hback & Hne & Hup).
  unfold coords_to_cell_name.
  assert (E1 : (c <? 1) || (r <? 1) = false) by lia.
  assert (E2 : (r >? TotalRows) = false) by lia.
  rewrite E1, E2, Hn. eexists. split; [reflexivity|].
  unfold cell_name_to_coords.
  change (if abs then [36] else []) with (sg abs).
  rewrite (split_ok abs abs name (itoa r) r); try assumption.
  - rewrite E2, Hback. reflexivity.
  - now apply upper_is_letter.
  - apply n2c_nonneg_digits. lia.
  - apply atoi_itoa. unfold TotalRows, maxInt64 in *. lia.
  - lia.
Qed.

(* strictness *)
Lemma trim_prefix_shape l : exists d, l = sg d ++ trim_prefix36 l.
Proof.
  destruct l as [|x l]; [exists false; reflexivity|]. cbn.
  destruct (Z.eqb_spec x 36); [exists true; subst; reflexivity|exists false; reflexivity].
Qed.

Lemma trim_suffix_shape l : exists d, l = trim_suffix36 l ++ sg d.
Proof.
  unfold trim_suffix36. destruct (trim_prefix_shape (rev l)) as (d & E). exists d.
  rewrite <- (rev_involutive l) at 1. rewrite E at 1. rewrite rev_app_distr.
  f_equal. destruct d; reflexivity.
Qed.

Lemma digits_val_nonneg ds : forallb is_digit ds = true -> 0 <= digits_val ds.
Proof.
  unfold digits_val. assert (G : forall acc, 0 <= acc -> forallb is_digit ds = true ->
     0 <= fold_left (fun a d => a * 10 + (d - 48)) ds acc).
  { induction ds as [|d ds IH]; intros acc Hacc H; cbn [fold_left forallb] in *; [assumption|].
    apply andb_prop in H. destruct H as [H1 H2]. apply IH; [|assumption].
    unfold is_digit in H1. lia. }
  intros H. apply G; [lia|assumption].
Qed.

Lemma atoi_pos_digits s r :
  atoi s = Some r -> r > 0 -> hd_is 43 s = false -> s <> [] /\ forallb is_digit s = true.
Proof.
  unfold atoi. destruct s as [|c rest]; [discriminate|]. intros H Hr H43. cbn [hd_is] in H43.
  split; [discriminate|].
  destruct (Z.eqb_spec c 43) as [E43|N43]; [discriminate|].
  destruct (Z.eqb_spec c 45) as [E45|N45].
  - cbn [orb] in H. destruct rest as [|d ds]; [discriminate|].
    destruct (forallb is_digit (d :: ds)) eqn:Hd; [|discriminate].
    pose proof (digits_val_nonneg _ Hd). cbv zeta in H.
    destruct (digits_val (d :: ds) <=? two63); [|discriminate]. inversion H. lia.
  - cbn [orb] in H. destruct (forallb is_digit (c :: rest)) eqn:Hd; [reflexivity|discriminate].
Qed.

Lemma cell_strict s c r :
  cell_name_to_coords s = Ok (c, r) ->
  a1_style s /\ 1 <= c <= MaxColumns /\ 1 <= r <= TotalRows.
Proof.
  unfold cell_name_to_coords. destruct (split_cell_name s) as [[col row]| |] eqn:Es; try discriminate.
  destruct (Z.gtb_spec row TotalRows) as [|Hrow]; [discriminate|].
  destruct (col_name_to_number col) as [cn| |] eqn:Ec; try discriminate.
  intros H. inversion H; subst cn row. clear H.
  destruct (col_name_ok_shape col c Ec) as (Hne & Hl & _ & Hc).
  unfold split_cell_name in Es.
  destruct (index_first is_alpha_d s) as [[|?]|]; try discriminate.
  destruct (index_last is_alpha_d s) as [i|]; try discriminate.
  destruct (S i <? length s)%nat; try discriminate.
  destruct (atoi (skipn (S i) s)) as [row|] eqn:Ea; try discriminate.
  match type of Es with (if ?b then _ else _) = _ => destruct b eqn:Eb; [|discriminate] end.
  inversion Es; subst col row. clear Es.
  repeat (match goal with H : (_ && _)%bool = true |- _ => apply andb_prop in H; destruct H end).
  assert (Hr0 : r > 0) by lia.
  assert (H43 : hd_is 43 (skipn (S i) s) = false)
    by (destruct (hd_is 43 (skipn (S i) s)); [discriminate|reflexivity]).
  destruct (atoi_pos_digits _ _ Ea Hr0 H43) as (Hdn & Hdd).
  split; [|split; [assumption|lia]].
  destruct (trim_prefix_shape (firstn (S i) s)) as (d1 & E1).
  destruct (trim_suffix_shape (trim_prefix36 (firstn (S i) s))) as (d2 & E2).
  exists d1, d2, (trim_suffix36 (trim_prefix36 (firstn (S i) s))), (skipn (S i) s).
  split.
  - rewrite <- (firstn_skipn (S i) s) at 1. rewrite E1 at 1. rewrite E2 at 1.
    unfold sg. now rewrite <- !app_assoc.
  - repeat split; assumption.
Qed.
