(* Shared definitions: result type, Go int wrap-around, byte helpers. Stdlib only (extraction friendly). *)
From Coq Require Export ZArith List Bool Lia.
Export ListNotations.
Open Scope Z_scope.

Inductive res (A : Type) : Type :=
| Ok (a : A)
| Err (e : Z)      (* error class, small enum; never message text *)
| Panic (p : Z).   (* Go run-time panic (index out of range, nil deref ...) *)
Arguments Ok {A} a.
Arguments Err {A} e.
Arguments Panic {A} p.

Definition bind {A B} (r : res A) (f : A -> res B) : res B :=
  match r with Ok a => f a | Err e => Err e | Panic p => Panic p end.

Definition is_ok {A} (r : res A) : bool := match r with Ok _ => true | _ => false end.
Definition is_panic {A} (r : res A) : bool := match r with Panic _ => true | _ => false end.

(* Go's int/int64: two's complement wrap-around *)
Definition two63 : Z := 9223372036854775808.
Definition two64 : Z := 18446744073709551616.
Definition wrap64 (z : Z) : Z := ((z + two63) mod two64) - two63.
Definition maxInt64 : Z := 9223372036854775807.
Definition minInt64 : Z := -9223372036854775808.

Definition bytes := list Z.

Definition is_upper (b : Z) : bool := (65 <=? b) && (b <=? 90).
Definition is_lower (b : Z) : bool := (97 <=? b) && (b <=? 122).
Definition is_letter (b : Z) : bool := is_upper b || is_lower b.
Definition is_digit (b : Z) : bool := (48 <=? b) && (b <=? 57).
Definition to_upper_b (b : Z) : Z := if is_lower b then b - 32 else b.
Definition to_upper (s : bytes) : bytes := map to_upper_b s.

Fixpoint bytes_eqb (a b : bytes) : bool :=
  match a, b with
  | [], [] => true
  | x :: a', y :: b' => (x =? y) && bytes_eqb a' b'
  | _, _ => false
  end.

(* strings.IndexFunc / LastIndexFunc for ASCII predicates (byte scan) *)
Fixpoint index_first (p : Z -> bool) (l : bytes) : option nat :=
  match l with
  | [] => None
  | x :: r => if p x then Some O else
                match index_first p r with Some n => Some (S n) | None => None end
  end.
Definition index_last (p : Z -> bool) (l : bytes) : option nat :=
  match index_first p (rev l) with
  | Some j => Some (length l - 1 - j)%nat
  | None => None
  end.

(* strconv.Itoa for non-negative n *)
Fixpoint itoa_aux (fuel : nat) (n : Z) (acc : bytes) : bytes :=
  match fuel with
  | O => acc
  | S f => let acc' := (48 + n mod 10) :: acc in
           if n <? 10 then acc' else itoa_aux f (n / 10) acc'
  end.
Definition itoa (n : Z) : bytes :=
  if n <? 0 then 45 :: itoa_aux 20 (- n) [] else itoa_aux 20 n [].

(* big-endian decimal value of a digit string *)
Definition digits_val (ds : bytes) : Z := fold_left (fun a d => a * 10 + (d - 48)) ds 0.

(* strconv.Atoi: optional sign, >= 1 decimal digits, range error outside int64 *)
Definition atoi (s : bytes) : option Z :=
  match s with
  | [] => None
  | c :: r =>
    let neg := c =? 45 in
    let ds := if (c =? 43) || (c =? 45) then r else s in
    match ds with
    | [] => None
    | _ => if forallb is_digit ds then
             let v := digits_val ds in
             if neg then (if v <=? two63 then Some (- v) else None)
             else (if v <=? maxInt64 then Some v else None)
           else None
    end
  end.
