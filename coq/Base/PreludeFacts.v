From VF Require Import Base.Prelude.
From Coq Require Import ZifyBool.

Lemma wrap64_small z : minInt64 <= z <= maxInt64 -> wrap64 z = z.
Proof.
  unfold wrap64, minInt64, maxInt64, two63, two64. intros H.
  rewrite Z.mod_small; lia.
Qed.

Lemma index_first_none p l : forallb (fun x => negb (p x)) l = true -> index_first p l = None.
Proof.
  induction l as [|x r IH]; cbn; [reflexivity|].
  intros H. apply andb_prop in H. destruct H as [H1 H2].
  destruct (p x); [discriminate|]. now rewrite IH.
Qed.

Lemma index_first_app_skip p a b :
  forallb (fun x => negb (p x)) a = true ->
  index_first p (a ++ b) =
  match index_first p b with Some n => Some (length a + n)%nat | None => None end.
Proof.
  induction a as [|x r IH]; cbn.
  - intros _. destruct (index_first p b); reflexivity.
  - intros H. apply andb_prop in H. destruct H as [H1 H2].
    destruct (p x); [discriminate|]. rewrite IH by assumption.
    destruct (index_first p b); reflexivity.
Qed.

Lemma index_last_app p a x b :
  p x = true -> forallb (fun y => negb (p y)) b = true ->
  index_last p (a ++ x :: b) = Some (length a).
Proof.
  intros Hx Hb. unfold index_last.
  rewrite rev_app_distr. cbn [rev]. rewrite <- app_assoc. cbn [app].
  rewrite index_first_app_skip.
  2:{ rewrite forallb_forall in *. intros y Hy. apply Hb. now apply in_rev. }
  cbn. rewrite Hx. rewrite rev_length, app_length. cbn [length]. f_equal. lia.
Qed.

Lemma digits_val_app a b :
  digits_val (a ++ b) = fold_left (fun a d => a * 10 + (d - 48)) b (digits_val a).
Proof. unfold digits_val. now rewrite fold_left_app. Qed.

Lemma itoa_aux_app f : forall n acc, itoa_aux f n acc = itoa_aux f n [] ++ acc.
Proof.
  induction f as [|f IH]; intros n acc; cbn [itoa_aux]; [reflexivity|].
  destruct (n <? 10); [reflexivity|].
  rewrite IH. rewrite (IH _ [_]). now rewrite <- app_assoc.
Qed.

Lemma itoa_aux_val f : forall n, 0 <= n < 10 ^ Z.of_nat f -> digits_val (itoa_aux f n []) = n.
Proof.
  induction f as [|f IH]; intros n Hn.
  - cbn in Hn. unfold digits_val. cbn. lia.
  - cbn [itoa_aux]. destruct (Z.ltb_spec n 10) as [Hlt|Hge].
    + unfold digits_val. cbn [fold_left]. rewrite Z.mod_small by lia. lia.
    + rewrite itoa_aux_app. rewrite digits_val_app. cbn [fold_left].
      rewrite IH.
      * pose proof (Z.div_mod n 10). lia.
      * rewrite Nat2Z.inj_succ, Z.pow_succ_r in Hn by lia.
        split; [apply Z.div_pos; lia|]. apply Z.div_lt_upper_bound; lia.
Qed.

Lemma itoa_aux_digits f : forall n acc, 0 <= n -> forallb is_digit acc = true ->
  forallb is_digit (itoa_aux f n acc) = true.
Proof.
  induction f as [|f IH]; intros n acc Hn Hacc; cbn [itoa_aux]; [assumption|].
  assert (Hd : forallb is_digit ((48 + n mod 10) :: acc) = true).
  { cbn [forallb]. rewrite Hacc. unfold is_digit. pose proof (Z.mod_pos_bound n 10). lia. }
  destruct (n <? 10); [assumption|]. apply IH; [apply Z.div_pos; lia | assumption].
Qed.

Lemma itoa_aux_nonempty f n acc : (0 < f)%nat -> itoa_aux f n acc <> [].
Proof.
  destruct f as [|f]; [lia|]. intros _. cbn [itoa_aux].
  destruct (n <? 10); [discriminate|]. rewrite itoa_aux_app. intro H.
  apply app_eq_nil in H. destruct H; discriminate.
Qed.

Lemma itoa_hd_digit n : 0 <= n -> exists d r, itoa n = d :: r /\ is_digit d = true.
Proof.
  intros Hn. unfold itoa. destruct (Z.ltb_spec n 0); [lia|].
  pose proof (itoa_aux_digits 20 n [] Hn eq_refl) as Hd.
  pose proof (itoa_aux_nonempty 20 n []) as Hne.
  destruct (itoa_aux 20 n []) as [|d r]; [exfalso; apply Hne; [lia|reflexivity]|].
  exists d, r. split; [reflexivity|]. cbn in Hd. now apply andb_prop in Hd.
Qed.

Lemma atoi_itoa n : 0 <= n <= maxInt64 -> atoi (itoa n) = Some n.
Proof.
  intros Hn. destruct (itoa_hd_digit n) as (d & r & Hi & Hd); [lia|].
  assert (Hall : forallb is_digit (itoa n) = true).
  { unfold itoa. destruct (Z.ltb_spec n 0); [lia|]. apply itoa_aux_digits; [lia|reflexivity]. }
  assert (Hv : digits_val (itoa n) = n).
  { unfold itoa. destruct (Z.ltb_spec n 0); [lia|]. apply itoa_aux_val.
    unfold maxInt64 in Hn. change (10 ^ Z.of_nat 20) with 100000000000000000000. lia. }
  unfold atoi. rewrite Hi in *.
  assert (d <> 43 /\ d <> 45) as [H43 H45] by (unfold is_digit in Hd; lia).
  apply Z.eqb_neq in H43, H45. rewrite H43, H45. cbn [orb].
  cbv zeta. rewrite Hall, Hv. destruct (Z.leb_spec n maxInt64); [reflexivity|lia].
Qed.
