(* C13 proofs, part 2: every chain the writer lays down is read back as the consecutive sectors it was meant to
   cover, the chains are pairwise disjoint, the FAT fills exactly the FAT sectors the layout reserved, and a reader
   following the chains extracts the bytes that were stored. *)
From VF Require Import Base.Prelude Generated.Consts C13.Model C13.Proofs C13.Chains.
From Coq Require Import ZifyBool ZifyNat.
Ltac Zify.zify_post_hook ::= Z.div_mod_to_equations.

Lemma chain_length : forall n i, length (chain i n) = n.
Proof.
  induction n as [|m IH]; intros i; cbn [chain]; [reflexivity|].
  destruct m as [|m']; [reflexivity|]. cbn [length]. rewrite IH. reflexivity.
Qed.

(* the word stored for the k-th sector of a chain: the next sector, ENDOFCHAIN for the last one *)
Lemma chain_nth : forall n i k, (k < n)%nat ->
  nth k (chain i n) FREE = if (S k =? n)%nat then EOC else i + Z.of_nat k + 1.
Proof.
  induction n as [|m IH]; intros i k Hk; [lia|].
  cbn [chain]. destruct m as [|m'].
  - assert (k = O) by lia. subst k. reflexivity.
  - destruct k as [|k'].
    + cbn [nth]. destruct (Nat.eqb_spec 1 (S (S m'))); [lia|]. cbn. lia.
    + cbn [nth]. rewrite IH by lia.
      destruct (Nat.eqb_spec (S k') (S m')); destruct (Nat.eqb_spec (S (S k')) (S (S m'))); try lia.
Qed.

Lemma seqZ_length : forall n i, length (seqZ i n) = n.
Proof. induction n as [|m IH]; intros i; cbn; [reflexivity|]. rewrite IH. reflexivity. Qed.

Lemma seqZ_In : forall n i x, In x (seqZ i n) <-> i <= x < i + Z.of_nat n.
Proof.
  induction n as [|m IH]; intros i x; cbn [seqZ In]; [lia|].
  rewrite IH. lia.
Qed.

(* a table holds the chain of n sectors from sector i on *)
Definition chain_at (t : list Z) (i : Z) (n : nat) : Prop :=
  0 <= i /\ (Z.to_nat i + n <= length t)%nat /\
  forall k, (k < n)%nat -> nth (Z.to_nat i + k) t FREE = if (S k =? n)%nat then EOC else i + Z.of_nat k + 1.

Lemma walk_chain : forall n t i fuel, (0 < n)%nat -> chain_at t i n -> (n <= fuel)%nat ->
  walk t fuel i = Some (seqZ i n).
Proof.
  induction n as [|m IH]; intros t i fuel Hn (Hi & Hlen & Hnth) Hfuel; [lia|].
  destruct fuel as [|fuel']; [lia|].
  cbn [walk seqZ].
  destruct (Z.eqb_spec i EOC) as [E|_]; [unfold EOC in E; lia|].
  destruct ((i <? 0) || (Z.of_nat (length t) <=? i)) eqn:Eb; [lia|].
  specialize (Hnth O ltac:(lia)) as H0. rewrite Nat.add_0_r in H0. rewrite H0.
  destruct (Nat.eqb_spec 1 (S m)) as [E1|N1].
  - assert (m = O) by lia. subst m. destruct fuel'; cbn [walk]; reflexivity.
  - rewrite (IH t (i + Z.of_nat 0 + 1) fuel'); try lia.
    + replace (i + Z.of_nat 0 + 1) with (i + 1) by lia. reflexivity.
    + split; [lia|]. split; [lia|]. intros k Hk.
      specialize (Hnth (S k) ltac:(lia)).
      replace (Z.to_nat (i + Z.of_nat 0 + 1) + k)%nat with (Z.to_nat i + S k)%nat by lia. rewrite Hnth.
      destruct (Nat.eqb_spec (S (S k)) (S m)); destruct (Nat.eqb_spec (S k) m); try lia.
Qed.

Definition sumN (l : list nat) : nat := fold_right Nat.add O l.

Lemma alloc_length : forall lens i, length (fst (alloc i lens)) = sumN lens /\ length (snd (alloc i lens)) = length lens.
Proof.
  induction lens as [|n r IH]; intros i; cbn [alloc]; [split; reflexivity|].
  destruct (alloc (i + Z.of_nat n) r) as [e st] eqn:E. specialize (IH (i + Z.of_nat n)). rewrite E in IH. cbn [fst snd] in *.
  rewrite app_length, chain_length. cbn [length sumN fold_right]. destruct IH as [-> ->]. split; reflexivity.
Qed.

(* start of the j-th chain: the sectors before it are those of the chains before it *)
Lemma alloc_start : forall lens i j, (j < length lens)%nat ->
  nth j (snd (alloc i lens)) FREE = i + Z.of_nat (sumN (firstn j lens)).
Proof.
  induction lens as [|n r IH]; intros i j Hj; cbn [length] in Hj; [lia|].
  cbn [alloc]. destruct (alloc (i + Z.of_nat n) r) as [e st] eqn:E. cbn [snd].
  destruct j as [|j']; cbn [nth firstn sumN fold_right]; [lia|].
  specialize (IH (i + Z.of_nat n) j' ltac:(lia)). rewrite E in IH. cbn [snd] in IH. rewrite IH. unfold sumN. lia.
Qed.

(* every non-empty chain of an allocation sits in any table that holds the allocation at its place *)
Lemma alloc_chain_at : forall lens i pre post j, 0 <= i -> length pre = Z.to_nat i -> (j < length lens)%nat ->
  (0 < nth j lens O)%nat ->
  chain_at (pre ++ fst (alloc i lens) ++ post) (nth j (snd (alloc i lens)) FREE) (nth j lens O).
Proof.
  induction lens as [|n r IH]; intros i pre post j Hi Hpre Hj Hpos; cbn [length] in Hj; [lia|].
  cbn [alloc]. destruct (alloc (i + Z.of_nat n) r) as [e st] eqn:E. cbn [fst snd].
  destruct j as [|j'].
  - cbn [nth] in *. split; [assumption|]. split.
    + rewrite !app_length, chain_length. lia.
    + intros k Hk. rewrite <- Hpre. rewrite app_nth2_plus. rewrite <- app_assoc. rewrite app_nth1 by (rewrite chain_length; lia).
      apply chain_nth. assumption.
  - cbn [nth] in *.
    specialize (IH (i + Z.of_nat n) (pre ++ chain i n) post j' ltac:(lia)).
    rewrite E in IH. cbn [fst snd] in IH. rewrite <- !app_assoc in IH. rewrite <- app_assoc. apply IH; try lia.
    rewrite app_length, chain_length. lia.
Qed.

(* the chains of an allocation cover pairwise disjoint sector intervals, in order *)
Lemma alloc_disjoint : forall lens i j k, (j < k)%nat -> (k < length lens)%nat ->
  nth j (snd (alloc i lens)) FREE + Z.of_nat (nth j lens O) <= nth k (snd (alloc i lens)) FREE.
Proof.
  intros lens i j k Hjk Hk. rewrite !alloc_start by lia.
  assert (G : forall (l : list nat) a b, (a < b)%nat -> (b <= length l)%nat -> (sumN (firstn a l) + nth a l O <= sumN (firstn b l))%nat).
  { induction l as [|x l IHl]; intros a b Hab Hb; cbn [length] in Hb; [lia|].
    destruct b as [|b']; [lia|]. destruct a as [|a']; cbn [firstn nth sumN fold_right].
    - unfold sumN. lia.
    - specialize (IHl a' b' ltac:(lia) ltac:(lia)). unfold sumN in *. lia. }
  specialize (G lens j k Hjk ltac:(lia)). lia.
Qed.

Lemma pad128_length l : (length (pad128 l) mod 128 = 0)%nat /\ (length l <= length (pad128 l) < length l + 128)%nat.
Proof.
  unfold pad128. rewrite app_length, repeat_length.
  pose proof (Nat.mod_upper_bound (length l) 128 ltac:(lia)).
  pose proof (Nat.div_mod (length l) 128 ltac:(lia)).
  pose proof (Nat.mod_upper_bound (128 - length l mod 128) 128 ltac:(lia)).
  split; [|lia].
  destruct (Nat.eq_dec (length l mod 128) 0) as [E|N].
  - rewrite E. replace ((128 - 0) mod 128)%nat with O by reflexivity. rewrite Nat.add_0_r. assumption.
  - rewrite (Nat.mod_small (128 - length l mod 128) 128) by lia.
    replace (length l + (128 - length l mod 128))%nat with (128 * (length l / 128 + 1))%nat by lia.
    rewrite Nat.mul_comm. apply Nat.mod_mul. lia.
Qed.

(* ---------- the FAT fills exactly the sectors the layout reserved for it ---------- *)
Lemma fat_loop_minimal : forall fuel sectors f f' d', fat_loop fuel sectors f = Some (f', d') ->
  f' = f \/ (sectors + (f' - 1) + difat_for (f' - 1) + 127) / 128 > f' - 1.
Proof.
  induction fuel as [|k IH]; intros sectors f f' d' H; cbn [fat_loop] in H; [discriminate|].
  destruct (Z.gtb_spec ((sectors + f + difat_for f + 127) / 128) f) as [Hgt|Hle].
  - destruct (IH _ _ _ _ H) as [E|G]; [|right; assumption]. right. subst f'. replace (f + 1 - 1) with f by lia. lia.
  - inversion H; subst. left; reflexivity.
Qed.

Lemma sumN_app a b : sumN (a ++ b) = (sumN a + sumN b)%nat.
Proof. induction a as [|x a IH]; cbn [app sumN fold_right]; [reflexivity|]. unfold sumN in *. lia. Qed.

Lemma sumZ_cons x l : sumZ (x :: l) = x + sumZ l.
Proof.
  unfold sumZ. cbn [fold_left]. assert (G : forall l a b, fold_left Z.add l (a + b) = a + fold_left Z.add l b).
  { induction l0 as [|y r IH]; intros a b; cbn [fold_left]; [reflexivity|]. rewrite <- Z.add_assoc. apply IH. }
  replace (0 + x) with (x + 0) by lia. apply G.
Qed.

Lemma fat_sectors_nonneg s : 0 <= s -> 0 <= fat_sectors_of s.
Proof. intros H. unfold fat_sectors_of, mini_cutoff. destruct (4096 <=? s) eqn:E; lia. Qed.
Lemma mini_sectors_nonneg s : 0 <= mini_sectors_of s.
Proof. unfold mini_sectors_of, mini_cutoff. destruct ((0 <? s) && (s <? 4096)) eqn:E; lia. Qed.

Lemma sumN_nsec sizes : (forall s, In s sizes -> 0 <= s) ->
  Z.of_nat (sumN (map nsec sizes)) = sumZ (map fat_sectors_of sizes).
Proof.
  induction sizes as [|s r IH]; intros H; [reflexivity|].
  cbn [map sumN fold_right]. rewrite sumZ_cons. fold (sumN (map nsec r)).
  rewrite Nat2Z.inj_add, IH by (intros; apply H; now right).
  unfold nsec. rewrite Z2Nat.id by (apply fat_sectors_nonneg, H; now left). reflexivity.
Qed.
Lemma sumN_nmini sizes : Z.of_nat (sumN (map nmini sizes)) = sumZ (map mini_sectors_of sizes).
Proof.
  induction sizes as [|s r IH]; [reflexivity|].
  cbn [map sumN fold_right]. rewrite sumZ_cons. fold (sumN (map nmini r)).
  rewrite Nat2Z.inj_add, IH. unfold nmini. rewrite Z2Nat.id by apply mini_sectors_nonneg. reflexivity.
Qed.

Lemma pad128_exact l f : (128 * (f - 1) < length l <= 128 * f)%nat \/ (length l = 0 /\ f = 0)%nat ->
  length (pad128 l) = (128 * f)%nat.
Proof.
  intros H. destruct (pad128_length l) as [Hm Hb].
  pose proof (Nat.div_mod (length (pad128 l)) 128 ltac:(lia)) as Hd. rewrite Hm in Hd. lia.
Qed.

(* facts about a layout that locate returned *)
Lemma ceil128_le x f : (x + 127) / 128 <= f <-> x <= 128 * f.
Proof. lia. Qed.
Lemma ceil128_gt x f : (x + 127) / 128 > f <-> x > 128 * f.
Proof. lia. Qed.
Lemma ceil128_bounds x : 0 <= x -> x <= 128 * ((x + 127) / 128) /\ (x = 0 \/ 128 * ((x + 127) / 128 - 1) < x).
Proof. lia. Qed.
Lemma difat_for_mono f : 0 <= f -> difat_for (f - 1) <= difat_for f.
Proof. intros H. unfold difat_for. destruct (Z.gtb_spec (f - 1) 109); destruct (Z.gtb_spec f 109); lia. Qed.
Lemma difat_for_small f : f <= 109 -> difat_for f = 0.
Proof. intros H. unfold difat_for. destruct (Z.gtb_spec f 109); lia. Qed.

Lemma locate_inv fuel sizes npaths g : locate_with fuel sizes npaths = Some g ->
  let mini := sumZ (map mini_sectors_of sizes) in
  let big := sumZ (map fat_sectors_of sizes) in
  let sectors := (mini + 7) / 8 + big + (npaths + 3) / 4 + (mini + 127) / 128 in
  exists f d, fat_loop fuel sectors ((sectors + 127) / 128) = Some (f, d) /\
    g = mkGeo d f ((mini + 127) / 128) ((npaths + 3) / 4) big mini
          (1 + d + f + (mini + 127) / 128 + (npaths + 3) / 4 + big)
          (1 + d + f + (mini + 127) / 128 + (npaths + 3) / 4 + big + (mini + 7) / 8).
Proof.
  intros H. unfold locate_with in H. cbv zeta in *.
  destruct (fat_loop fuel _ _) as [[f d]|] eqn:E; [|discriminate].
  exists f, d. split; [reflexivity|]. inversion H. reflexivity.
Qed.

Lemma locate_facts fuel sizes npaths g : (forall s, In s sizes -> 0 <= s) -> 0 <= npaths -> locate_with fuel sizes npaths = Some g ->
  let mini := sumZ (map mini_sectors_of sizes) in
  let sectors := (mini + 7) / 8 + g_big g + g_dir g + g_minifat g in
  0 <= g_difat g /\ 0 <= g_fat g /\ 0 <= g_minifat g /\ 0 <= g_dir g /\ 0 <= mini /\
  g_mini g = mini /\ g_big g = sumZ (map fat_sectors_of sizes) /\ 0 <= g_big g /\ g_minifat g = (mini + 127) / 128 /\
  ((128 * (g_fat g - 1) < g_difat g + g_fat g + sectors <= 128 * g_fat g) \/ (g_difat g + g_fat g + sectors = 0 /\ g_fat g = 0)).
Proof.
  intros Hs Hn H. apply locate_inv in H. cbv zeta in *. destruct H as (f & d & E & ->).
  cbn [g_mini g_big g_dir g_minifat g_fat g_difat g_ministream_start g_end].
  destruct (fat_loop_post _ _ _ _ _ E) as (Hd & Hf & Hc).
  pose proof (fat_loop_minimal _ _ _ _ _ E) as Hmin. clear E.
  set (mini := sumZ (map mini_sectors_of sizes)) in *. set (big := sumZ (map fat_sectors_of sizes)) in *.
  assert (Hmini : 0 <= mini).
  { apply sum_nonneg. intros x Hx. apply in_map_iff in Hx. destruct Hx as (s & <- & Hin). apply mini_sectors_nonneg. }
  assert (Hbig : 0 <= big).
  { apply sum_nonneg. intros x Hx. apply in_map_iff in Hx. destruct Hx as (s & <- & Hin). apply fat_sectors_nonneg, Hs, Hin. }
  assert (Hms : 0 <= (mini + 7) / 8) by (clear - Hmini; apply Z.div_pos; lia).
  assert (Hmf : 0 <= (mini + 127) / 128) by (clear - Hmini; apply Z.div_pos; lia).
  assert (Hdir : 0 <= (npaths + 3) / 4) by (clear - Hn; apply Z.div_pos; lia).
  clearbody mini big. clear Hs.
  remember ((mini + 127) / 128) as mf eqn:Emf.
  set (ms := (mini + 7) / 8) in *. set (dir := (npaths + 3) / 4) in *.
  clearbody ms dir.
  set (sectors := ms + big + dir + mf) in *.
  assert (Hsec : 0 <= sectors) by (clear - Hms Hbig Hdir Hmf; unfold sectors; lia).
  destruct (ceil128_bounds sectors Hsec) as (Hb1 & Hb2).
  assert (Hf0 : 0 <= f).
  { assert (0 <= (sectors + 127) / 128) by (apply Z.div_pos; lia). lia. }
  destruct (difat_covers f Hf0) as (H1 & H2 & H3).
  pose proof (difat_for_mono f Hf0) as Hmono.
  apply ceil128_le in Hc.
  assert (Hfinal : 128 * (f - 1) < d + f + sectors <= 128 * f \/ d + f + sectors = 0 /\ f = 0).
  { destruct Hmin as [Emin|Gmin].
    - destruct Hb2 as [Z0|Hb2].
      + right. assert (f = 0) by (subst f; rewrite Z0; reflexivity).
        assert (d = 0) by (subst d; apply difat_for_small; lia). lia.
      + left. set (f0 := (sectors + 127) / 128) in *. clearbody f0. lia.
    - apply ceil128_gt in Gmin. left. set (f0 := (sectors + 127) / 128) in *. clearbody f0.
      set (dm := difat_for (f - 1)) in *. clearbody dm. subst d. set (dd := difat_for f) in *. clearbody dd. lia. }
  set (f0 := (sectors + 127) / 128) in *. clearbody f0.
  subst d. set (dd := difat_for f) in *. clearbody dd.
  repeat split; try lia.
Qed.

Lemma repeat_app_length {A} (x y : A) a b : length (repeat x a ++ repeat y b) = (a + b)%nat.
Proof. rewrite app_length, !repeat_length. reflexivity. Qed.

(* ---------- the FAT as written ---------- *)
(* every statement below is about the table the writer emits for the layout locate computed:
   - it fills exactly the g_fat sectors reserved for it (so the sectors written after it are where the header and
     the directory say they are);
   - the chain of every stream of 4096 bytes and more, of the mini FAT, of the directory and of the mini stream
     container is read back as the consecutive sectors from its start sector, as many as its size requires;
   - those intervals are pairwise disjoint and follow each other in layout order;
   - the start sectors the writer stores in the header (mini FAT: d+f, directory: d+f+minifat) and in the root
     entry (mini stream container: g_ministream_start - 1) are the starts of these chains. *)
Theorem fat_table_chains fuel sizes npaths g t st :
  (forall s, In s sizes -> 0 <= s) -> 0 <= npaths -> locate_with fuel sizes npaths = Some g ->
  fat_table g sizes = (t, st) ->
  let lens := fat_lens g sizes in
  Z.of_nat (length t) = 128 * g_fat g /\
  length st = length lens /\
  (forall j, (j < length lens)%nat -> (0 < nth j lens O)%nat ->
     walk t (nth j lens O) (nth j st FREE) = Some (seqZ (nth j st FREE) (nth j lens O))) /\
  (forall j k, (j < k)%nat -> (k < length lens)%nat -> nth j st FREE + Z.of_nat (nth j lens O) <= nth k st FREE) /\
  (forall j, (j < length lens)%nat ->
     nth j st FREE = g_difat g + g_fat g + Z.of_nat (sumN (firstn j lens))) /\
  nth 0 st FREE = g_difat g + g_fat g /\
  nth 1 st FREE = g_difat g + g_fat g + g_minifat g /\
  nth (S (S (length sizes))) st FREE = g_ministream_start g - 1.
Proof.
  intros Hs Hn Hloc Ht lens.
  pose proof (locate_facts fuel sizes npaths g Hs Hn Hloc) as F. cbv zeta in F.
  destruct F as (Hd & Hf & Hmf & Hdir & Hmini & Emini & Ebig & Hbig & Emf & Hsize).
  pose proof (locate_with_geometry fuel sizes npaths g Hs Hn Hloc) as G. cbv zeta in G.
  destruct G as (_ & _ & _ & _ & _ & Estart & _ & _).
  unfold fat_table in Ht.
  destruct (alloc (g_difat g + g_fat g) (fat_lens g sizes)) as [e st'] eqn:Ea.
  inversion Ht; subst t st'. clear Ht.
  pose proof (alloc_length (fat_lens g sizes) (g_difat g + g_fat g)) as [Le Ls]. rewrite Ea in Le, Ls. cbn [fst snd] in Le, Ls.
  assert (Hsum : Z.of_nat (sumN lens) = g_minifat g + g_dir g + g_big g + (g_mini g + 7) / 8).
  { unfold lens, fat_lens. cbn [sumN fold_right]. fold (sumN (map nsec sizes ++ [Z.to_nat ((g_mini g + 7) / 8)])).
    rewrite sumN_app. cbn [sumN fold_right]. rewrite !Nat2Z.inj_add, sumN_nsec by assumption.
    rewrite <- Ebig. assert (0 <= (g_mini g + 7) / 8) by (apply Z.div_pos; lia). lia. }
  assert (Hms0 : 0 <= (g_mini g + 7) / 8) by (apply Z.div_pos; lia).
  split.
  { set (pre := repeat DIFSECT (Z.to_nat (g_difat g)) ++ repeat FATSECT (Z.to_nat (g_fat g)) ++ e).
    assert (Lpre : Z.of_nat (length pre) = g_difat g + g_fat g + (g_minifat g + g_dir g + g_big g + (g_mini g + 7) / 8)).
    { unfold pre. rewrite !app_length, !repeat_length, Le. fold lens. lia. }
    rewrite (pad128_exact pre (Z.to_nat (g_fat g))); [lia|].
    rewrite Emini in *. set (ms := (sumZ (map mini_sectors_of sizes) + 7) / 8) in *. clearbody ms.
    clear - Lpre Hsize Hf Hd Hmf Hdir Hbig Hms0. lia. }
  split; [exact Ls|].
  assert (Hlenlens : length lens = S (S (S (length sizes)))).
  { unfold lens, fat_lens. cbn [length]. rewrite app_length, map_length. cbn [length]. lia. }
  split.
  { intros j Hj Hpos. apply walk_chain; [assumption| |lia].
    pose proof (alloc_chain_at (fat_lens g sizes) (g_difat g + g_fat g)
                  (repeat DIFSECT (Z.to_nat (g_difat g)) ++ repeat FATSECT (Z.to_nat (g_fat g)))
                  (repeat EOC ((128 - length (repeat DIFSECT (Z.to_nat (g_difat g)) ++ repeat FATSECT (Z.to_nat (g_fat g)) ++ e) mod 128) mod 128)%nat)
                  j ltac:(lia)) as C.
    rewrite Ea in C. cbn [fst snd] in C. unfold pad128. rewrite <- !app_assoc in *. apply C.
    - rewrite repeat_app_length. lia.
    - exact Hj.
    - exact Hpos. }
  split.
  { intros j k Hjk Hk. pose proof (alloc_disjoint (fat_lens g sizes) (g_difat g + g_fat g) j k Hjk Hk) as D.
    rewrite Ea in D. exact D. }
  assert (Hstart : forall j, (j < length lens)%nat -> nth j st FREE = g_difat g + g_fat g + Z.of_nat (sumN (firstn j lens))).
  { intros j Hj. pose proof (alloc_start (fat_lens g sizes) (g_difat g + g_fat g) j Hj) as S0. rewrite Ea in S0. exact S0. }
  split; [exact Hstart|].
  split; [rewrite Hstart by lia; cbn [firstn sumN fold_right]; lia|].
  split.
  { rewrite Hstart by lia. unfold lens, fat_lens. cbn [firstn sumN fold_right]. lia. }
  rewrite Hstart by lia.
  replace (firstn (S (S (length sizes))) lens) with (Z.to_nat (g_minifat g) :: Z.to_nat (g_dir g) :: map nsec sizes).
  - cbn [sumN fold_right]. fold (sumN (map nsec sizes)). rewrite !Nat2Z.inj_add, sumN_nsec by assumption. rewrite Estart, <- Ebig. lia.
  - unfold lens, fat_lens. cbn [firstn]. f_equal. f_equal.
    rewrite firstn_app, map_length, Nat.sub_diag, firstn_O, app_nil_r.
    rewrite <- (map_length nsec sizes) at 1. rewrite firstn_all. reflexivity.
Qed.

(* ---------- the mini FAT as written ---------- *)
Lemma pad128_ceil l : Z.of_nat (length (pad128 l)) = 128 * ((Z.of_nat (length l) + 127) / 128).
Proof.
  destruct (pad128_length l) as [Hm Hb].
  pose proof (Nat.div_mod (length (pad128 l)) 128 ltac:(lia)) as Hd. rewrite Hm in Hd. lia.
Qed.

Theorem minifat_table_chains fuel sizes npaths g t st :
  (forall s, In s sizes -> 0 <= s) -> 0 <= npaths -> locate_with fuel sizes npaths = Some g ->
  minifat_table sizes = (t, st) ->
  let lens := map nmini sizes in
  Z.of_nat (length t) = 128 * g_minifat g /\
  length st = length lens /\
  (forall j, (j < length lens)%nat -> (0 < nth j lens O)%nat ->
     walk t (nth j lens O) (nth j st FREE) = Some (seqZ (nth j st FREE) (nth j lens O))) /\
  (forall j k, (j < k)%nat -> (k < length lens)%nat -> nth j st FREE + Z.of_nat (nth j lens O) <= nth k st FREE) /\
  (forall j, (j < length lens)%nat -> nth j st FREE = Z.of_nat (sumN (firstn j lens))) /\
  (* every mini sector lies inside the mini stream container the root entry describes (g_mini mini sectors) *)
  (forall j, (j < length lens)%nat -> nth j st FREE + Z.of_nat (nth j lens O) <= g_mini g).
Proof.
  intros Hs Hn Hloc Ht lens.
  pose proof (locate_facts fuel sizes npaths g Hs Hn Hloc) as F. cbv zeta in F.
  destruct F as (Hd & Hf & Hmf & Hdir & Hmini & Emini & Ebig & Hbig & Emf & Hsize).
  unfold minifat_table in Ht. destruct (alloc 0 (map nmini sizes)) as [e st'] eqn:Ea.
  inversion Ht; subst t st'. clear Ht.
  pose proof (alloc_length (map nmini sizes) 0) as [Le Ls]. rewrite Ea in Le, Ls. cbn [fst snd] in Le, Ls.
  assert (Hstart : forall j, (j < length lens)%nat -> nth j st FREE = Z.of_nat (sumN (firstn j lens))).
  { intros j Hj. pose proof (alloc_start (map nmini sizes) 0 j Hj) as S0. rewrite Ea in S0. cbn [snd] in S0. rewrite S0. unfold lens. lia. }
  split; [rewrite pad128_ceil, Le, sumN_nmini, Emf; reflexivity|].
  split; [exact Ls|].
  split.
  { intros j Hj Hpos. apply walk_chain; [assumption| |lia].
    pose proof (alloc_chain_at (map nmini sizes) 0 [] (repeat EOC ((128 - length e mod 128) mod 128)%nat) j ltac:(lia) eq_refl Hj Hpos) as C.
    rewrite Ea in C. cbn [fst snd app] in C. exact C. }
  split.
  { intros j k Hjk Hk. pose proof (alloc_disjoint (map nmini sizes) 0 j k Hjk Hk) as D. rewrite Ea in D. exact D. }
  split; [exact Hstart|].
  intros j Hj. rewrite Hstart by assumption. rewrite Emini, <- sumN_nmini. fold lens.
  assert (G : forall (l : list nat) a, (a < length l)%nat -> (sumN (firstn a l) + nth a l O <= sumN l)%nat).
  { induction l as [|x l IHl]; intros a Ha; cbn [length] in Ha; [lia|].
    destruct a as [|a']; cbn [firstn nth sumN fold_right]; [unfold sumN; lia|].
    specialize (IHl a' ltac:(lia)). unfold sumN in *. lia. }
  specialize (G lens j Hj). lia.
Qed.

(* ---------- contents: what is stored under a chain is what a reader extracts ---------- *)
Lemma put_blocks_out : forall bs img s k, k < s \/ s + Z.of_nat (length bs) <= k -> put_blocks img s bs k = img k.
Proof.
  induction bs as [|b r IH]; intros img s k Hk; cbn [put_blocks]; [reflexivity|].
  cbn [length] in Hk. rewrite IH by lia. destruct (Z.eqb_spec k s); [lia|reflexivity].
Qed.

Lemma put_blocks_in : forall bs img s i, (i < length bs)%nat -> put_blocks img s bs (s + Z.of_nat i) = nth i bs [].
Proof.
  induction bs as [|b r IH]; intros img s i Hi; cbn [length] in Hi; [lia|].
  cbn [put_blocks]. destruct i as [|i'].
  - rewrite put_blocks_out by lia. replace (s + Z.of_nat 0) with s by lia. rewrite Z.eqb_refl. reflexivity.
  - replace (s + Z.of_nat (S i')) with (s + 1 + Z.of_nat i') by lia. rewrite IH by lia. reflexivity.
Qed.

Lemma blocks_of_length : forall n bsz c, length (blocks_of bsz n c) = n.
Proof. induction n as [|m IH]; intros bsz c; cbn [blocks_of length]; [reflexivity|]. rewrite IH. reflexivity. Qed.

Lemma blocks_of_concat : forall n bsz c, (0 < bsz)%nat -> (length c <= bsz * n)%nat ->
  firstn (length c) (concat (blocks_of bsz n c)) = c.
Proof.
  induction n as [|m IH]; intros bsz c Hb Hc.
  - destruct c; [reflexivity|cbn [length] in Hc; lia].
  - cbn [blocks_of concat]. destruct (Nat.le_gt_cases (length c) bsz) as [Hle|Hgt].
    + rewrite (firstn_all2 c Hle). rewrite <- app_assoc. rewrite firstn_app, Nat.sub_diag, firstn_O, app_nil_r, firstn_all. reflexivity.
    + assert (Lf : length (firstn bsz c) = bsz) by (rewrite firstn_length; lia).
      rewrite Lf, Nat.sub_diag. cbn [repeat]. rewrite app_nil_r.
      rewrite firstn_app, Lf. rewrite (firstn_all2 (firstn bsz c)) by lia.
      assert (Ls : length (skipn bsz c) = (length c - bsz)%nat) by apply skipn_length.
      rewrite <- Ls. rewrite IH; [apply firstn_skipn|assumption|rewrite Ls; lia].
Qed.

(* sectors below every later start are not touched by the later streams *)
Lemma put_streams_below : forall starts lens contents bsz img x,
  (forall k, (k < length starts)%nat -> x < nth k starts FREE) ->
  put_streams bsz img starts lens contents x = img x.
Proof.
  induction starts as [|s st IH]; intros lens contents bsz img x H; [reflexivity|].
  destruct lens as [|n ln]; [reflexivity|]. destruct contents as [|c cs]; [reflexivity|].
  cbn [put_streams]. rewrite IH.
  - apply put_blocks_out. left. apply (H O). cbn [length]. lia.
  - intros k Hk. apply (H (S k)). cbn [length]. lia.
Qed.

Lemma put_streams_at : forall starts lens contents bsz img j i,
  length starts = length lens -> length contents = length lens ->
  (forall a b, (a < b)%nat -> (b < length lens)%nat -> nth a starts FREE + Z.of_nat (nth a lens O) <= nth b starts FREE) ->
  (j < length lens)%nat -> (i < nth j lens O)%nat ->
  put_streams bsz img starts lens contents (nth j starts FREE + Z.of_nat i) = nth i (blocks_of bsz (nth j lens O) (nth j contents [])) [].
Proof.
  induction starts as [|s st IH]; intros lens contents bsz img j i Hl1 Hl2 Hord Hj Hi.
  - destruct lens; cbn [length] in *; [lia|discriminate].
  - destruct lens as [|n ln]; [cbn [length] in Hj; lia|]. destruct contents as [|c cs]; [discriminate|].
    cbn [length] in *. cbn [put_streams]. destruct j as [|j'].
    + cbn [nth] in *. rewrite put_streams_below.
      * apply put_blocks_in. rewrite blocks_of_length. assumption.
      * intros k Hk. specialize (Hord O (S k) ltac:(lia) ltac:(lia)). cbn [nth] in Hord. lia.
    + cbn [nth] in *. apply IH; try lia.
      intros a b Hab Hb. apply (Hord (S a) (S b)); lia.
Qed.

Lemma map_seqZ_blocks : forall n (img : image) s bs, length bs = n ->
  (forall i, (i < n)%nat -> img (s + Z.of_nat i) = nth i bs []) -> map img (seqZ s n) = bs.
Proof.
  induction n as [|m IH]; intros img s bs Hl H.
  - destruct bs; [reflexivity|discriminate].
  - destruct bs as [|b r]; [discriminate|]. cbn [seqZ map]. f_equal.
    + specialize (H O ltac:(lia)). replace (s + Z.of_nat 0) with s in H by lia. exact H.
    + apply IH; [cbn [length] in Hl; lia|]. intros i Hi. specialize (H (S i) ltac:(lia)).
      replace (s + 1 + Z.of_nat i) with (s + Z.of_nat (S i)) by lia. exact H.
Qed.

(* the streams are stored at their start sectors, block after block; a reader that follows the chain of stream j
   and cuts the sectors to the stream size gets the content of stream j, whatever the other streams hold *)
Theorem read_back bsz starts lens contents t img j :
  (0 < bsz)%nat -> length starts = length lens -> length contents = length lens ->
  (forall a b, (a < b)%nat -> (b < length lens)%nat -> nth a starts FREE + Z.of_nat (nth a lens O) <= nth b starts FREE) ->
  (j < length lens)%nat ->
  walk t (nth j lens O) (nth j starts FREE) = Some (seqZ (nth j starts FREE) (nth j lens O)) ->
  (length (nth j contents []) <= bsz * nth j lens O)%nat ->
  read_stream (put_streams bsz img starts lens contents) t (nth j lens O) (nth j starts FREE) (length (nth j contents []))
  = Some (nth j contents []).
Proof.
  intros Hb Hl1 Hl2 Hord Hj Hwalk Hsize. unfold read_stream. rewrite Hwalk.
  rewrite (map_seqZ_blocks (nth j lens O) _ (nth j starts FREE) (blocks_of bsz (nth j lens O) (nth j contents []))).
  - rewrite blocks_of_concat by assumption. reflexivity.
  - apply blocks_of_length.
  - intros i Hi. apply put_streams_at; assumption.
Qed.

(* the writer and a reader of the FAT, end to end, for the streams that have FAT chains of their own
   (4096 bytes and more): whatever the mini FAT sectors (mfb), the directory sectors (db) and the mini stream
   container (cb) hold and whatever was in the image before *)
Theorem big_stream_read_back fuel contents npaths g t st img mfb db cb j :
  let sizes := map (fun c : bytes => Z.of_nat (length c)) contents in
  0 <= npaths -> locate_with fuel sizes npaths = Some g -> fat_table g sizes = (t, st) ->
  (j < length contents)%nat -> 4096 <= Z.of_nat (length (nth j contents [])) ->
  read_stream (put_streams 512 img st (fat_lens g sizes) (mfb :: db :: contents ++ [cb])) t
              (nsec (Z.of_nat (length (nth j contents [])))) (nth (S (S j)) st FREE) (length (nth j contents []))
  = Some (nth j contents []).
Proof.
  intros sizes Hn Hloc Ht Hj Hbig.
  assert (Hs : forall s, In s sizes -> 0 <= s).
  { intros s Hin. unfold sizes in Hin. apply in_map_iff in Hin. destruct Hin as (c & <- & _). lia. }
  destruct (fat_table_chains fuel sizes npaths g t st Hs Hn Hloc Ht) as (_ & Hlen & Hwalk & Hord & _).
  assert (Lsz : length sizes = length contents) by (unfold sizes; apply map_length).
  assert (Hlenlens : length (fat_lens g sizes) = S (S (S (length contents)))).
  { unfold fat_lens. cbn [length]. rewrite app_length, map_length. cbn [length]. lia. }
  assert (Enth : nth (S (S j)) (fat_lens g sizes) O = nsec (Z.of_nat (length (nth j contents [])))).
  { unfold fat_lens. cbn [nth]. rewrite app_nth1 by (rewrite map_length; lia).
    rewrite (nth_indep _ O (nsec 0)) by (rewrite map_length; lia). rewrite map_nth.
    unfold sizes. rewrite (nth_indep _ 0 (Z.of_nat (length (@nil Z)))) by (rewrite map_length; lia).
    rewrite (map_nth (fun c : bytes => Z.of_nat (length c))). reflexivity. }
  assert (Ec : nth (S (S j)) (mfb :: db :: contents ++ [cb]) [] = nth j contents []).
  { cbn [nth]. apply app_nth1. assumption. }
  assert (Hpos : (0 < nsec (Z.of_nat (length (nth j contents []))))%nat).
  { unfold nsec, fat_sectors_of, mini_cutoff. destruct (Z.leb_spec 4096 (Z.of_nat (length (nth j contents [])))); lia. }
  rewrite <- Enth, <- Ec.
  apply read_back; try lia.
  - cbn [length]. rewrite app_length. cbn [length]. lia.
  - assumption.
  - apply Hwalk; [lia|]. rewrite Enth. assumption.
  - unfold bytes in *. rewrite Ec, Enth. unfold nsec, fat_sectors_of, mini_cutoff.
    destruct (Z.leb_spec 4096 (Z.of_nat (length (nth j contents [])))); lia.
Qed.

(* ---------- the DIFAT: a reader finds every FAT sector, in order ---------- *)
Lemma seqZ_app : forall n m a, seqZ a n ++ seqZ (a + Z.of_nat n) m = seqZ a (n + m).
Proof.
  induction n as [|k IH]; intros m a; cbn [seqZ app plus].
  - replace (a + Z.of_nat 0) with a by lia. reflexivity.
  - f_equal. rewrite <- IH. f_equal. f_equal. lia.
Qed.

Definition nonfree (v : Z) : bool := negb (v =? FREE).

Lemma msat_slots g : 0 <= g_difat g -> forall n a, 0 <= a ->
  filter nonfree (map (msat_slot g) (seqZ a n)) =
  seqZ (g_difat g + a) (Z.to_nat (Z.min (Z.of_nat n) (Z.max 0 (g_fat g - a)))).
Proof.
  intros Hd. induction n as [|m IH]; intros a Ha.
  - cbn [seqZ map filter]. replace (Z.to_nat _) with O by lia. reflexivity.
  - cbn [seqZ map filter]. destruct (Z.ltb_spec a (g_fat g)) as [Hlt|Hge].
    + assert (Es : msat_slot g a = g_difat g + a) by (unfold msat_slot; destruct (Z.ltb_spec a (g_fat g)); lia).
      rewrite Es. unfold nonfree at 1. destruct (Z.eqb_spec (g_difat g + a) FREE) as [E|_]; [unfold FREE in E; lia|]. cbn [negb].
      rewrite IH by lia.
      replace (Z.to_nat (Z.min (Z.of_nat (S m)) (Z.max 0 (g_fat g - a)))) with (S (Z.to_nat (Z.min (Z.of_nat m) (Z.max 0 (g_fat g - (a + 1)))))) by lia.
      cbn [seqZ]. replace (g_difat g + (a + 1)) with (g_difat g + a + 1) by lia. reflexivity.
    + assert (Es : msat_slot g a = FREE) by (unfold msat_slot; destruct (Z.ltb_spec a (g_fat g)); [lia|reflexivity]).
      rewrite Es. unfold nonfree at 1. rewrite Z.eqb_refl. cbn [negb]. rewrite IH by lia.
      replace (Z.to_nat (Z.min (Z.of_nat (S m)) (Z.max 0 (g_fat g - a)))) with O by lia.
      replace (Z.to_nat (Z.min (Z.of_nat m) (Z.max 0 (g_fat g - (a + 1))))) with O by lia. reflexivity.
Qed.

Lemma msat_walk_chain g : 0 <= g_difat g -> g_fat g <= 109 + 127 * g_difat g ->
  127 * (g_difat g - 1) < g_fat g - 109 ->
  forall n o fuel, 0 <= o -> Z.of_nat n = g_difat g - o -> (0 < n)%nat -> (n <= fuel)%nat ->
  msat_walk g fuel o = Some (seqZ (g_difat g + 109 + 127 * o) (Z.to_nat (Z.max 0 (g_fat g - 109 - 127 * o)))).
Proof.
  intros Hd Hcov Hfew. induction n as [|k IH]; intros o fuel Ho Hn Hpos Hfuel; [lia|].
  destruct fuel as [|fuel']; [lia|]. cbn [msat_walk].
  destruct (Z.eqb_spec o EOC) as [E|_]; [unfold EOC in E; lia|].
  unfold msat_sector. rewrite last_last, removelast_last.
  fold nonfree. rewrite (msat_slots g Hd 127 (109 + 127 * o)) by lia.
  destruct (Z.eqb_spec o (g_difat g - 1)) as [Elast|Nlast].
  - assert (W : msat_walk g fuel' EOC = Some []) by (destruct fuel'; reflexivity). rewrite W, app_nil_r.
    f_equal. f_equal; lia.
  - rewrite (IH (o + 1) fuel') by lia.
    f_equal.
    replace (g_difat g + 109 + 127 * (o + 1)) with (g_difat g + (109 + 127 * o) + Z.of_nat (Z.to_nat (Z.min (Z.of_nat 127) (Z.max 0 (g_fat g - (109 + 127 * o)))))).
    + rewrite seqZ_app. f_equal; lia.
    + destruct (Z.le_gt_cases 127 (g_fat g - (109 + 127 * o))) as [Hge|Hlt]; [lia|].
      (* fewer than 127 FAT sectors left for this DIFAT sector although another one follows: excluded, the layout
         uses the fewest DIFAT sectors *)
      exfalso. clear IH. lia.
Qed.

Theorem msat_read_all fuel sizes npaths g :
  (forall s, In s sizes -> 0 <= s) -> 0 <= npaths -> locate_with fuel sizes npaths = Some g ->
  msat_read g = Some (seqZ (g_difat g) (Z.to_nat (g_fat g))).
Proof.
  intros Hs Hn Hloc.
  pose proof (locate_facts fuel sizes npaths g Hs Hn Hloc) as F. cbv zeta in F.
  destruct F as (Hd & Hf & _).
  pose proof (locate_with_geometry fuel sizes npaths g Hs Hn Hloc) as G. cbv zeta in G.
  destruct G as (_ & Hcov & Edif & _).
  destruct (difat_covers (g_fat g) Hf) as (_ & _ & Hfew). rewrite <- Edif in Hfew.
  unfold msat_read, msat_header. fold nonfree. rewrite (msat_slots g Hd 109 0) by lia.
  destruct (Z.eqb_spec (g_difat g) 0) as [E0|N0].
  - cbn [msat_walk]. rewrite Z.eqb_refl. rewrite app_nil_r. f_equal. f_equal; lia.
  - assert (Hbig : g_fat g > 109).
    { rewrite Edif in N0. unfold difat_for in N0. destruct (Z.gtb_spec (g_fat g) 109); lia. }
    rewrite (msat_walk_chain g Hd Hcov (Hfew Hbig) (Z.to_nat (g_difat g)) 0 (S (Z.to_nat (g_difat g)))) by lia.
    f_equal.
    replace (g_difat g + 109 + 127 * 0) with (g_difat g + 0 + Z.of_nat (Z.to_nat (Z.min (Z.of_nat 109) (Z.max 0 (g_fat g - 0))))) by lia.
    rewrite seqZ_app. f_equal; lia.
Qed.

(* ---------- mini streams through the container ---------- *)
Lemma blocks_of_block_length : forall n bsz c b, In b (blocks_of bsz n c) -> length b = bsz.
Proof.
  induction n as [|m IH]; intros bsz c b Hin; cbn [blocks_of] in Hin; [destruct Hin|].
  destruct Hin as [<-|Hin]; [|exact (IH _ _ _ Hin)].
  rewrite app_length, repeat_length. pose proof (firstn_le_length bsz c). rewrite firstn_length. lia.
Qed.

Lemma put_blocks_length : forall bs (img : image) s bsz, (forall k, length (img k) = bsz) ->
  (forall b, In b bs -> length b = bsz) -> forall k, length (put_blocks img s bs k) = bsz.
Proof.
  induction bs as [|b r IH]; intros img s bsz Himg Hbs k; cbn [put_blocks]; [apply Himg|].
  apply IH.
  - intros k'. destruct (Z.eqb_spec k' s); [apply Hbs; now left|apply Himg].
  - intros b' Hin. apply Hbs. now right.
Qed.

Lemma put_streams_length : forall starts lens contents bsz (img : image), (forall k, length (img k) = bsz) ->
  forall k, length (put_streams bsz img starts lens contents k) = bsz.
Proof.
  induction starts as [|s st IH]; intros lens contents bsz img Himg k; [apply Himg|].
  destruct lens as [|n ln]; [apply Himg|]. destruct contents as [|c cs]; [apply Himg|].
  cbn [put_streams]. apply IH. intros k'. apply put_blocks_length; [assumption|]. apply blocks_of_block_length.
Qed.

(* slicing the concatenation of equal-sized pieces gives the pieces back *)
Lemma slice_concat : forall n (f : Z -> bytes) B a m, (forall k, length (f k) = B) -> (m < n)%nat ->
  firstn B (skipn (B * m) (concat (map f (seqZ a n)))) = f (a + Z.of_nat m).
Proof.
  induction n as [|n' IH]; intros f B a m Hlen Hm; [lia|].
  cbn [seqZ map concat]. destruct m as [|m'].
  - rewrite Nat.mul_0_r. cbn [skipn]. rewrite firstn_app, Hlen, Nat.sub_diag, firstn_O, app_nil_r.
    rewrite <- (Hlen a) at 1. rewrite firstn_all. f_equal. lia.
  - rewrite skipn_app, Hlen. rewrite (skipn_all2 (f a)) by (rewrite Hlen; lia). cbn [app].
    replace (B * S m' - B)%nat with (B * m')%nat by lia.
    rewrite IH by (assumption || lia). f_equal. lia.
Qed.

(* the writer and a reader, end to end, for a stream below 4096 bytes (EncryptionInfo): the mini sectors are stored
   by the mini FAT layout, the container holding them is stored by the FAT layout as the last chain; a reader gets
   the container back through the FAT and the stream back through the mini FAT and the container *)
Theorem mini_stream_read_back fuel contents npaths g t st mt mst img mfb db j :
  let sizes := map (fun c : bytes => Z.of_nat (length c)) contents in
  let mimg := put_streams 64 (fun _ => repeat 0 64) mst (map nmini sizes) contents in
  let cb := container_bytes mimg (Z.to_nat (g_mini g)) in
  0 <= npaths -> locate_with fuel sizes npaths = Some g -> fat_table g sizes = (t, st) -> minifat_table sizes = (mt, mst) ->
  (j < length contents)%nat -> 0 < Z.of_nat (length (nth j contents [])) < 4096 ->
  read_stream (put_streams 512 img st (fat_lens g sizes) (mfb :: db :: contents ++ [cb])) t
              (Z.to_nat ((g_mini g + 7) / 8)) (g_ministream_start g - 1) (length cb) = Some cb /\
  read_mini cb mt (nmini (Z.of_nat (length (nth j contents [])))) (nth j mst FREE) (length (nth j contents []))
  = Some (nth j contents []).
Proof.
  intros sizes mimg cb Hn Hloc Ht Hmt Hj Hsz.
  assert (Hs : forall s, In s sizes -> 0 <= s).
  { intros s Hin. unfold sizes in Hin. apply in_map_iff in Hin. destruct Hin as (c & <- & _). lia. }
  pose proof (locate_facts fuel sizes npaths g Hs Hn Hloc) as F. cbv zeta in F.
  destruct F as (Hd & Hf & Hmf & Hdir & Hmini & Emini & Ebig & Hbig & Emf & Hsize).
  destruct (fat_table_chains fuel sizes npaths g t st Hs Hn Hloc Ht) as (_ & Hlen & Hwalk & Hord & _ & _ & _ & Hcont).
  destruct (minifat_table_chains fuel sizes npaths g mt mst Hs Hn Hloc Hmt) as (_ & Hmlen & Hmwalk & Hmord & _ & Hmin).
  assert (Lsz : length sizes = length contents) by (unfold sizes; apply map_length).
  assert (Hlenlens : length (fat_lens g sizes) = S (S (S (length contents)))).
  { unfold fat_lens. cbn [length]. rewrite app_length, map_length. cbn [length]. lia. }
  assert (Hmimg : forall k, length (mimg k) = 64%nat).
  { intros k. unfold mimg. apply put_streams_length. intros. apply repeat_length. }
  assert (Lcb : length cb = (64 * Z.to_nat (g_mini g))%nat).
  { unfold cb, container_bytes. generalize (Z.to_nat (g_mini g)) at 1 2. generalize 0.
    intros a n. revert a. induction n as [|n' IHn]; intros a; cbn [seqZ map concat]; [cbn [length]; lia|].
    rewrite app_length, Hmimg, IHn. lia. }
  assert (Hms0 : 0 <= (g_mini g + 7) / 8) by (apply Z.div_pos; lia).
  set (jc := S (S (length contents))).
  assert (Elen : nth jc (fat_lens g sizes) O = Z.to_nat ((g_mini g + 7) / 8)).
  { unfold jc, fat_lens. cbn [nth]. rewrite app_nth2 by (rewrite map_length; lia). rewrite map_length, Lsz, Nat.sub_diag. reflexivity. }
  assert (Ecb : nth jc (mfb :: db :: contents ++ [cb]) [] = cb).
  { unfold jc. cbn [nth]. rewrite app_nth2 by lia. rewrite Nat.sub_diag. reflexivity. }
  assert (Hjm : (j < length (map nmini sizes))%nat) by (rewrite map_length; lia).
  assert (Enm : nth j (map nmini sizes) O = nmini (Z.of_nat (length (nth j contents [])))).
  { rewrite (nth_indep _ O (nmini 0)) by assumption. rewrite map_nth.
    unfold sizes. rewrite (nth_indep _ 0 (Z.of_nat (length (@nil Z)))) by (rewrite map_length; lia).
    rewrite (map_nth (fun c : bytes => Z.of_nat (length c))). reflexivity. }
  assert (Hnm : Z.of_nat (nmini (Z.of_nat (length (nth j contents [])))) = (Z.of_nat (length (nth j contents [])) + 63) / 64).
  { unfold nmini, mini_sectors_of, mini_cutoff.
    destruct ((0 <? Z.of_nat (length (nth j contents []))) && (Z.of_nat (length (nth j contents [])) <? 4096)) eqn:Eb; [|lia].
    rewrite Z2Nat.id; [reflexivity|]. apply Z.div_pos; lia. }
  assert (Hpos : (0 < nmini (Z.of_nat (length (nth j contents []))))%nat) by lia.
  split.
  - (* the container through the FAT *)
    rewrite <- Elen. replace (g_ministream_start g - 1) with (nth jc st FREE) by (rewrite <- Hcont, Lsz; reflexivity).
    rewrite <- Ecb at 2 3.
    apply read_back; try lia.
    + cbn [length]. rewrite app_length. cbn [length]. lia.
    + assumption.
    + apply Hwalk; [lia|]. rewrite Elen.
      (* a non-empty stream below the cutoff needs at least one mini sector, hence a non-empty container *)
      specialize (Hmin j Hjm). rewrite Enm in Hmin.
      specialize (Hmord O j).
      assert (0 <= nth j mst FREE).
      { destruct (minifat_table_chains fuel sizes npaths g mt mst Hs Hn Hloc Hmt) as (_ & _ & _ & _ & Hst & _).
        rewrite (Hst j Hjm). lia. }
      lia.
    + unfold bytes in *. rewrite Ecb, Elen, Lcb. lia.
  - (* the stream through the mini FAT and the container *)
    unfold read_mini. rewrite <- Enm. rewrite (Hmwalk j Hjm) by (rewrite Enm; assumption).
    specialize (Hmin j Hjm).
    assert (Hst0 : 0 <= nth j mst FREE).
    { destruct (minifat_table_chains fuel sizes npaths g mt mst Hs Hn Hloc Hmt) as (_ & _ & _ & _ & Hst & _).
      rewrite (Hst j Hjm). lia. }
    assert (Emap : map (fun m => firstn 64 (skipn (Z.to_nat (64 * m)) cb)) (seqZ (nth j mst FREE) (nth j (map nmini sizes) O))
                   = map mimg (seqZ (nth j mst FREE) (nth j (map nmini sizes) O))).
    { apply map_ext_in. intros m Hm. apply seqZ_In in Hm.
      replace (Z.to_nat (64 * m)) with (64 * Z.to_nat m)%nat by lia.
      unfold cb, container_bytes. rewrite (slice_concat _ mimg 64 0 (Z.to_nat m) Hmimg) by lia. f_equal. lia. }
    rewrite Emap.
    assert (H64 : (0 < 64)%nat) by lia.
    assert (Hcl : length contents = length (map nmini sizes)) by (rewrite map_length; lia).
    pose proof (read_back 64 mst (map nmini sizes) contents mt (fun _ => repeat 0 64) j H64 Hmlen Hcl Hmord Hjm) as RB.
    unfold read_stream in RB. rewrite (Hmwalk j Hjm) in RB by (rewrite Enm; assumption).
    apply RB; [reflexivity|]. rewrite Enm. unfold bytes in *. lia.
Qed.
