(* C13 proofs, part 2: every chain the writer lays down is read back as the consecutive sectors it was meant to
   cover, the chains are pairwise disjoint, the FAT fills exactly the FAT sectors the layout reserved, and a reader
   following the chains extracts the bytes that were stored. *)
From VF Require Import Base.Prelude Generated.Consts C13.Model C13.Proofs C13.Chains.
From Coq Require Import ZifyBool ZifyNat.
Ltac Zify.zify_post_hook ::= Z.div_mod_to_equations.

Lemma chain_length : forall n i, length (chain i n) = n.
Proof.
  induction n as [|m IH]; intros i; cbn [chain]; [reflexivity|].
  destruct m as [|m']; [reflexivity|]. cbn [length]. rewrite IH. reflexivity.
Qed.

(* the word stored for the k-th sector of a chain: the next sector, ENDOFCHAIN for the last one *)
Lemma chain_nth : forall n i k, (k < n)%nat ->
  nth k (chain i n) FREE = if (S k =? n)%nat then EOC else i + Z.of_nat k + 1.
Proof.
  induction n as [|m IH]; intros i k Hk; [lia|].
  cbn [chain]. destruct m as [|m'].
  - assert (k = O) by lia. subst k. reflexivity.
  - destruct k as [|k'].
    + cbn [nth]. destruct (Nat.eqb_spec 1 (S (S m'))); [lia|]. cbn. lia.
    + cbn [nth]. rewrite IH by lia.
      destruct (Nat.eqb_spec (S k') (S m')); destruct (Nat.eqb_spec (S (S k')) (S (S m'))); try lia.
Qed.

Lemma seqZ_length : forall n i, length (seqZ i n) = n.
Proof. induction n as [|m IH]; intros i; cbn; [reflexivity|]. rewrite IH. reflexivity. Qed.

Lemma seqZ_In : forall n i x, In x (seqZ i n) <-> i <= x < i + Z.of_nat n.
Proof.
  induction n as [|m IH]; intros i x; cbn [seqZ In]; [lia|].
  rewrite IH. lia.
Qed.

(* a table holds the chain of n sectors from sector i on *)
Definition chain_at (t : list Z) (i : Z) (n : nat) : Prop :=
  0 <= i /\ (Z.to_nat i + n <= length t)%nat /\
  forall k, (k < n)%nat -> nth (Z.to_nat i + k) t FREE = if (S k =? n)%nat then EOC else i + Z.of_nat k + 1.

Lemma walk_chain : forall n t i fuel, (0 < n)%nat -> chain_at t i n -> (n <= fuel)%nat ->
  walk t fuel i = Some (seqZ i n).
Proof.
  induction n as [|m IH]; intros t i fuel Hn (Hi & Hlen & Hnth) Hfuel; [lia|].
  destruct fuel as [|fuel']; [lia|].
  cbn [walk seqZ].
  destruct (Z.eqb_spec i EOC) as [E|_]; [unfold EOC in E; lia|].
  destruct ((i <? 0) || (Z.of_nat (length t) <=? i)) eqn:Eb; [lia|].
  specialize (Hnth O ltac:(lia)) as H0. rewrite Nat.add_0_r in H0. rewrite H0.
  destruct (Nat.eqb_spec 1 (S m)) as [E1|N1].
  - assert (m = O) by lia. subst m. destruct fuel'; cbn [walk]; reflexivity.
  - rewrite (IH t (i + Z.of_nat 0 + 1) fuel'); try lia.
    + replace (i + Z.of_nat 0 + 1) with (i + 1) by lia. reflexivity.
    + split; [lia|]. split; [lia|]. intros k Hk.
      specialize (Hnth (S k) ltac:(lia)).
      replace (Z.to_nat (i + Z.of_nat 0 + 1) + k)%nat with (Z.to_nat i + S k)%nat by lia. rewrite Hnth.
      destruct (Nat.eqb_spec (S (S k)) (S m)); destruct (Nat.eqb_spec (S k) m); try lia.
Qed.

Definition sumN (l : list nat) : nat := fold_right Nat.add O l.

Lemma alloc_length : forall lens i, length (fst (alloc i lens)) = sumN lens /\ length (snd (alloc i lens)) = length lens.
Proof.
  induction lens as [|n r IH]; intros i; cbn [alloc]; [split; reflexivity|].
  destruct (alloc (i + Z.of_nat n) r) as [e st] eqn:E. specialize (IH (i + Z.of_nat n)). rewrite E in IH. cbn [fst snd] in *.
  rewrite app_length, chain_length. cbn [length sumN fold_right]. destruct IH as [-> ->]. split; reflexivity.
Qed.

(* start of the j-th chain: the sectors before it are those of the chains before it *)
Lemma alloc_start : forall lens i j, (j < length lens)%nat ->
  nth j (snd (alloc i lens)) FREE = i + Z.of_nat (sumN (firstn j lens)).
Proof.
  induction lens as [|n r IH]; intros i j Hj; cbn [length] in Hj; [lia|].
  cbn [alloc]. destruct (alloc (i + Z.of_nat n) r) as [e st] eqn:E. cbn [snd].
  destruct j as [|j']; cbn [nth firstn sumN fold_right]; [lia|].
  specialize (IH (i + Z.of_nat n) j' ltac:(lia)). rewrite E in IH. cbn [snd] in IH. rewrite IH. unfold sumN. lia.
Qed.

(* every non-empty chain of an allocation sits in any table that holds the allocation at its place *)
Lemma alloc_chain_at : forall lens i pre post j, 0 <= i -> length pre = Z.to_nat i -> (j < length lens)%nat ->
  (0 < nth j lens O)%nat ->
  chain_at (pre ++ fst (alloc i lens) ++ post) (nth j (snd (alloc i lens)) FREE) (nth j lens O).
Proof.
  induction lens as [|n r IH]; intros i pre post j Hi Hpre Hj Hpos; cbn [length] in Hj; [lia|].
  cbn [alloc]. destruct (alloc (i + Z.of_nat n) r) as [e st] eqn:E. cbn [fst snd].
  destruct j as [|j'].
  - cbn [nth] in *. split; [assumption|]. split.
    + rewrite !app_length, chain_length. lia.
    + intros k Hk. rewrite <- Hpre. rewrite app_nth2_plus. rewrite <- app_assoc. rewrite app_nth1 by (rewrite chain_length; lia).
      apply chain_nth. assumption.
  - cbn [nth] in *.
    specialize (IH (i + Z.of_nat n) (pre ++ chain i n) post j' ltac:(lia)).
    rewrite E in IH. cbn [fst snd] in IH. rewrite <- !app_assoc in IH. rewrite <- app_assoc. apply IH; try lia.
    rewrite app_length, chain_length. lia.
Qed.

(* the chains of an allocation cover pairwise disjoint sector intervals, in order *)
Lemma alloc_disjoint : forall lens i j k, (j < k)%nat -> (k < length lens)%nat ->
  nth j (snd (alloc i lens)) FREE + Z.of_nat (nth j lens O) <= nth k (snd (alloc i lens)) FREE.
Proof.
  intros lens i j k Hjk Hk. rewrite !alloc_start by lia.
  assert (G : forall (l : list nat) a b, (a < b)%nat -> (b <= length l)%nat -> (sumN (firstn a l) + nth a l O <= sumN (firstn b l))%nat).
  { induction l as [|x l IHl]; intros a b Hab Hb; cbn [length] in Hb; [lia|].
    destruct b as [|b']; [lia|]. destruct a as [|a']; cbn [firstn nth sumN fold_right].
    - unfold sumN. lia.
    - specialize (IHl a' b' ltac:(lia) ltac:(lia)). unfold sumN in *. lia. }
  specialize (G lens j k Hjk ltac:(lia)). lia.
Qed.

Lemma pad128_length l : (length (pad128 l) mod 128 = 0)%nat /\ (length l <= length (pad128 l) < length l + 128)%nat.
Proof.
  unfold pad128. rewrite app_length, repeat_length.
  pose proof (Nat.mod_upper_bound (length l) 128 ltac:(lia)).
  pose proof (Nat.div_mod (length l) 128 ltac:(lia)).
  pose proof (Nat.mod_upper_bound (128 - length l mod 128) 128 ltac:(lia)).
  split; [|lia].
  destruct (Nat.eq_dec (length l mod 128) 0) as [E|N].
  - rewrite E. replace ((128 - 0) mod 128)%nat with O by reflexivity. rewrite Nat.add_0_r. assumption.
  - rewrite (Nat.mod_small (128 - length l mod 128) 128) by lia.
    replace (length l + (128 - length l mod 128))%nat with (128 * (length l / 128 + 1))%nat by lia.
    rewrite Nat.mul_comm. apply Nat.mod_mul. lia.
Qed.
