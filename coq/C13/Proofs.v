From VF Require Import Base.Prelude Generated.Consts C13.Model.
From Coq Require Import ZifyBool ZifyNat.
Ltac Zify.zify_post_hook ::= Z.div_mod_to_equations.

(* ---------- length prefix ---------- *)
Lemma le_roundtrip : forall n v, 0 <= v < 256 ^ Z.of_nat n -> le_decode (le_encode n v) = v.
Proof.
  induction n as [|n IH]; intros v Hv; cbn [le_encode le_decode].
  - change (256 ^ Z.of_nat 0) with 1 in Hv. lia.
  - rewrite IH.
    + pose proof (Z.div_mod v 256). lia.
    + rewrite Nat2Z.inj_succ, Z.pow_succ_r in Hv by lia. split; [apply Z.div_pos; lia|apply Z.div_lt_upper_bound; lia].
Qed.
Lemma le_encode_length : forall n v, length (le_encode n v) = n.
Proof. induction n; intros; cbn; auto. Qed.

(* ---------- blocks ---------- *)
Lemma blocks_concat : forall fuel l, (length l <= fuel)%nat ->
  concat (blocks fuel l) ++ skipn (16 * (length l / 16)) l = l.
Proof.
  induction fuel as [|f IH]; intros l Hl.
  - destruct l; [reflexivity|cbn in Hl; lia].
  - cbn [blocks]. destruct (Nat.leb_spec 16 (length l)) as [H16|H16].
    + cbn [concat]. rewrite <- app_assoc.
      assert (Hs : length (skipn 16 l) = (length l - 16)%nat) by apply skipn_length.
      specialize (IH (skipn 16 l) ltac:(lia)).
      assert (Hd : (length l / 16 = S (length (skipn 16 l) / 16))%nat).
      { rewrite Hs. replace (length l) with ((length l - 16) + 1 * 16)%nat at 1 by lia. rewrite Nat.div_add by lia. lia. }
      rewrite Hd. replace (16 * S (length (skipn 16 l) / 16))%nat with (16 + 16 * (length (skipn 16 l) / 16))%nat by lia.
      rewrite <- skipn_skipn' || idtac.
      replace (skipn (16 + 16 * (length (skipn 16 l) / 16)) l) with (skipn (16 * (length (skipn 16 l) / 16)) (skipn 16 l)).
      * rewrite IH. apply firstn_skipn.
      * clear. generalize (16 * (length (skipn 16 l) / 16))%nat as k. intros k.
        revert l. assert (G : forall (a b : nat) (l : bytes), skipn b (skipn a l) = skipn (a + b) l).
        { induction a; intros b l; cbn; [reflexivity|]. destruct l; [now rewrite skipn_nil|apply IHa]. }
        intros l. apply G.
    + cbn [concat app]. rewrite Nat.div_small by lia. reflexivity.
Qed.

Lemma blocks_all16 : forall fuel l x, In x (blocks fuel l) -> length x = 16%nat.
Proof.
  induction fuel as [|f IH]; intros l x H; cbn [blocks] in H; [destruct H|].
  destruct (Nat.leb_spec 16 (length l)); [|destruct H]. destruct H as [<-|H]; [rewrite firstn_length; lia|eauto].
Qed.

Lemma blocks_of_concat : forall (bs : list bytes) fuel, (forall x, In x bs -> length x = 16%nat) ->
  (length (concat bs) <= fuel)%nat -> blocks fuel (concat bs) = bs.
Proof.
  induction bs as [|b bs IH]; intros fuel H16 Hf; cbn [concat] in *.
  - destruct fuel; reflexivity.
  - assert (Hb : length b = 16%nat) by (apply H16; now left). rewrite app_length in Hf.
    destruct fuel; [lia|]. cbn [blocks]. rewrite app_length.
    destruct (Nat.leb_spec 16 (length b + length (concat bs))); [|lia].
    replace 16%nat with (length b + 0)%nat at 1 2 by lia.
    rewrite firstn_app_2, skipn_app. cbn [firstn]. rewrite app_nil_r.
    replace (length b + 0 - length b)%nat with 0%nat by lia. rewrite skipn_all2 by lia. cbn [skipn app].
    f_equal. apply IH; [intros; apply H16; now right|lia].
Qed.

Lemma pad16_length l : (length (pad16 l) mod 16 = 0)%nat /\ (length l <= length (pad16 l) < length l + 16)%nat.
Proof.
  unfold pad16. rewrite app_length, repeat_length.
  pose proof (Nat.mod_upper_bound (length l) 16 ltac:(lia)). pose proof (Nat.div_mod (length l) 16 ltac:(lia)).
  destruct (Nat.eq_dec (length l mod 16) 0) as [E|N].
  - rewrite E. cbn. split; [rewrite Nat.add_0_r; exact E|lia].
  - rewrite (Nat.mod_small (16 - length l mod 16) 16) by lia. split; lia.
Qed.

Section Cipher.
Variable E D : bytes -> bytes.
Hypothesis DE : forall x, length x = 16%nat -> D (E x) = x.
Hypothesis E_len : forall x, length x = 16%nat -> length (E x) = 16%nat.

(* C13 crypt layer: decryption returns exactly the bytes that were encrypted, for every payload *)
Theorem crypt_roundtrip (b : bytes) : Z.of_nat (length b) < 2 ^ 64 -> decrypt_pkg D (encrypt_pkg E b) = Ok b.
Proof.
  intros Hlen. unfold encrypt_pkg, decrypt_pkg.
  set (bs := blocks (length b + 16) (pad16 b)).
  destruct (pad16_length b) as [Hm Hl].
  assert (H16 : forall x, In x bs -> length x = 16%nat) by (intros x Hx; eapply blocks_all16; eauto).
  assert (Hcat : concat bs = pad16 b).
  { pose proof (blocks_concat (length b + 16) (pad16 b) ltac:(lia)) as H. fold bs in H.
    assert (E16 : (16 * (length (pad16 b) / 16) = length (pad16 b))%nat).
    { pose proof (Nat.div_mod (length (pad16 b)) 16 ltac:(lia)). lia. }
    rewrite E16, skipn_all, app_nil_r in H. exact H. }
  assert (HE16 : forall x, In x (map E bs) -> length x = 16%nat).
  { intros x Hx. apply in_map_iff in Hx. destruct Hx as (y & <- & Hy). apply E_len. now apply H16. }
  assert (Hclen : length (concat (map E bs)) = length (pad16 b)).
  { rewrite <- Hcat. clear - H16 E_len. induction bs as [|x r IH]; cbn; [reflexivity|]. rewrite !app_length, E_len by (apply H16; now left).
    rewrite IH by (intros; apply H16; now right). rewrite (H16 x) by now left. reflexivity. }
  rewrite app_length, le_encode_length. destruct (Nat.ltb_spec (8 + length (concat (map E bs))) 8); [lia|].
  rewrite firstn_app, le_encode_length, Nat.sub_diag, firstn_O, app_nil_r.
  rewrite firstn_all2 by (rewrite le_encode_length; lia).
  rewrite le_roundtrip by (change (256 ^ Z.of_nat 8) with (2 ^ 64); lia).
  rewrite skipn_app, le_encode_length, Nat.sub_diag. rewrite skipn_all2 by (rewrite le_encode_length; lia). cbn [skipn app].
  rewrite Hclen, blocks_of_concat by (try assumption; lia).
  rewrite map_map. replace (map (fun x => D (E x)) bs) with bs.
  2:{ clear - H16 DE. induction bs as [|x r IH]; cbn; [reflexivity|]. rewrite DE by (apply H16; now left). f_equal. apply IH. intros; apply H16; now right. }
  rewrite Hcat, Hm. cbn [repeat]. rewrite app_nil_r.
  destruct (Z.ltb_spec (Z.of_nat (length b)) (Z.of_nat (length (pad16 b)))) as [Hlt|Hge].
  - unfold pad16. rewrite Nat2Z.id. rewrite firstn_app, Nat.sub_diag, firstn_O, app_nil_r, firstn_all. reflexivity.
  - assert (Hp : length (pad16 b) = length b) by lia.
    assert (Er : repeat 0 ((16 - length b mod 16) mod 16)%nat = []).
    { unfold pad16 in Hp. rewrite app_length, repeat_length in Hp. destruct ((16 - length b mod 16) mod 16)%nat; [reflexivity|lia]. }
    unfold pad16. rewrite Er, app_nil_r. reflexivity.
Qed.
End Cipher.

(* ---------- geometry ---------- *)
Lemma fat_loop_post : forall fuel sectors f f' d', fat_loop fuel sectors f = Some (f', d') ->
  d' = difat_for f' /\ f <= f' /\ (sectors + f' + d' + 127) / 128 <= f'.
Proof.
  induction fuel as [|k IH]; intros sectors f f' d' H; cbn [fat_loop] in H; [discriminate|].
  destruct (Z.gtb_spec ((sectors + f + difat_for f + 127) / 128) f) as [Hgt|Hle].
  - destruct (IH _ _ _ _ H) as (H1 & H2 & H3). split; [assumption|]. split; [lia|assumption].
  - inversion H; subst. split; [reflexivity|]. split; [lia|assumption].
Qed.

Lemma difat_covers f : 0 <= f -> f <= 109 + 127 * difat_for f /\ 0 <= difat_for f /\ (f > 109 -> 127 * (difat_for f - 1) < f - 109).
Proof. intros Hf. unfold difat_for. destruct (Z.gtb_spec f 109); lia. Qed.

Lemma fat_loop_terminates : forall fuel sectors f, 0 <= sectors -> 0 <= f ->
  (sectors + 300) / 126 + 2 - f <= Z.of_nat fuel -> exists r, fat_loop (S fuel) sectors f = Some r.
Proof.
  induction fuel as [|k IH]; intros sectors f Hs Hf Hfuel; cbn [fat_loop].
  - destruct (Z.gtb_spec ((sectors + f + difat_for f + 127) / 128) f) as [Hgt|Hle]; [|eexists; reflexivity].
    exfalso. unfold difat_for in *. destruct (Z.gtb_spec f 109); lia.
  - destruct (Z.gtb_spec ((sectors + f + difat_for f + 127) / 128) f) as [Hgt|Hle]; [|eexists; reflexivity].
    apply IH; lia.
Qed.

Lemma sum_nonneg (l : list Z) : (forall x, In x l -> 0 <= x) -> 0 <= sumZ l.
Proof.
  unfold sumZ. assert (G : forall l a, 0 <= a -> (forall x, In x l -> 0 <= x) -> 0 <= fold_left Z.add l a).
  { induction l0 as [|x r IH]; intros a Ha H; cbn; [assumption|]. apply IH; [specialize (H x (or_introl eq_refl)); lia|intros; apply H; now right]. }
  intros H. apply G; [lia|assumption].
Qed.

(* C13 geometry: for every list of stream sizes the writer's sector counts are consistent *)
Lemma locate_with_geometry fuel sizes npaths g :
  (forall s, In s sizes -> 0 <= s) -> 0 <= npaths -> locate_with fuel sizes npaths = Some g ->
  let ministream := (g_mini g + 7) / 8 in
  let sectors := ministream + g_big g + g_dir g + g_minifat g in
  (* every sector after the header, FAT and DIFAT sectors included, has an entry in the FAT *)
  sectors + g_fat g + g_difat g <= 128 * g_fat g /\
  (* the header's 109 slots plus 127 per DIFAT sector enumerate every FAT sector, with the fewest DIFAT sectors *)
  g_fat g <= 109 + 127 * g_difat g /\ g_difat g = difat_for (g_fat g) /\
  (* the mini FAT covers the mini stream, the mini stream container holds it *)
  g_mini g <= 128 * g_minifat g /\ g_mini g <= 8 * ministream /\
  (* layout: header, DIFAT, FAT, mini FAT, directory, big streams, mini stream container *)
  g_ministream_start g = 1 + g_difat g + g_fat g + g_minifat g + g_dir g + g_big g /\
  g_end g = g_ministream_start g + ministream /\
  4 * g_dir g >= npaths.
Proof.
  intros Hs Hn H. unfold locate_with in H.
  set (mini := sumZ (map mini_sectors_of sizes)) in *. set (big := sumZ (map fat_sectors_of sizes)) in *.
  destruct (fat_loop fuel _ _) as [[f d]|] eqn:E; [|discriminate]. inversion H; subst g. clear H. cbn [g_mini g_big g_dir g_minifat g_fat g_difat g_ministream_start g_end].
  destruct (fat_loop_post _ _ _ _ _ E) as (Hd & Hf & Hc).
  assert (Hmini : 0 <= mini).
  { apply sum_nonneg. intros x Hx. apply in_map_iff in Hx. destruct Hx as (s & <- & Hin). unfold mini_sectors_of, mini_cutoff. destruct ((0 <? s) && (s <? 4096)) eqn:Eb; lia. }
  assert (Hbig : 0 <= big).
  { apply sum_nonneg. intros x Hx. apply in_map_iff in Hx. destruct Hx as (s & <- & Hin). unfold fat_sectors_of, mini_cutoff. specialize (Hs s Hin). destruct (4096 <=? s) eqn:Eb; lia. }
  assert (Hf0 : 0 <= f) by lia.
  destruct (difat_covers f Hf0) as (H1 & H2 & _).
  subst d. repeat split; try lia.
Qed.

Theorem locate_geometry sizes npaths g :
  (forall s, In s sizes -> 0 <= s) -> 0 <= npaths -> locate sizes npaths = Some g ->
  let ministream := (g_mini g + 7) / 8 in
  let sectors := ministream + g_big g + g_dir g + g_minifat g in
  sectors + g_fat g + g_difat g <= 128 * g_fat g /\
  g_fat g <= 109 + 127 * g_difat g /\ g_difat g = difat_for (g_fat g) /\
  g_mini g <= 128 * g_minifat g /\ g_mini g <= 8 * ministream /\
  g_ministream_start g = 1 + g_difat g + g_fat g + g_minifat g + g_dir g + g_big g /\
  g_end g = g_ministream_start g + ministream /\
  4 * g_dir g >= npaths.
Proof. unfold locate. apply locate_with_geometry. Qed.

Lemma locate_with_total fuel sizes npaths : 4096 <= Z.of_nat fuel ->
  (forall s, In s sizes -> 0 <= s) -> 0 <= npaths ->
  (sumZ (map mini_sectors_of sizes) + 7) / 8 + sumZ (map fat_sectors_of sizes) + (npaths + 3) / 4 + (sumZ (map mini_sectors_of sizes) + 127) / 128 <= 500000 ->
  exists g, locate_with fuel sizes npaths = Some g.
Proof.
  intros Hfuel Hs Hn Hb. unfold locate_with.
  set (sectors := _ + _ + _ + _) in *.
  assert (H0 : 0 <= sectors).
  { unfold sectors. assert (0 <= sumZ (map mini_sectors_of sizes)).
    { apply sum_nonneg. intros x Hx. apply in_map_iff in Hx. destruct Hx as (s & <- & Hin). unfold mini_sectors_of, mini_cutoff. destruct ((0 <? s) && (s <? 4096)) eqn:Eb; lia. }
    assert (0 <= sumZ (map fat_sectors_of sizes)).
    { apply sum_nonneg. intros x Hx. apply in_map_iff in Hx. destruct Hx as (s & <- & Hin). unfold fat_sectors_of, mini_cutoff. specialize (Hs s Hin). destruct (4096 <=? s) eqn:Eb; lia. }
    lia. }
  destruct fuel as [|k]; [lia|].
  assert (Hf0 : 0 <= (sectors + 127) / 128) by (apply Z.div_pos; lia).
  destruct (fat_loop_terminates k sectors ((sectors + 127) / 128) H0 Hf0) as [[f d] Hr].
  - clearbody sectors. lia.
  - rewrite Hr. eexists. reflexivity.
Qed.

Theorem locate_total sizes npaths :
  (forall s, In s sizes -> 0 <= s) -> 0 <= npaths ->
  (sumZ (map mini_sectors_of sizes) + 7) / 8 + sumZ (map fat_sectors_of sizes) + (npaths + 3) / 4 + (sumZ (map mini_sectors_of sizes) + 127) / 128 <= 500000 ->
  exists g, locate sizes npaths = Some g.
Proof. unfold locate. apply locate_with_total. unfold fat_fuel. rewrite Z2Nat.id; lia. Qed.
