(* C13 model, part 2: the allocation tables of the compound-file writer (crypt.go:writeSectorChains,
   writeMSAT) as lists of 32-bit words, and the reader's view of them (MS-CFB 2.3/2.4: a stream is the list of
   sectors obtained by following the table from the start sector of its directory entry until ENDOFCHAIN). *)
From VF Require Import Base.Prelude Generated.Consts C13.Model.

Definition EOC : Z := -2.       (* endOfChain 0xFFFFFFFE as a signed 32-bit word *)
Definition FREE : Z := -1.      (* 0xFFFFFFFF *)
Definition FATSECT : Z := -3.   (* 0xFFFFFFFD *)
Definition DIFSECT : Z := -4.   (* 0xFFFFFFFC *)

(* writeSectorChain(head, offset): the entries of a chain of n sectors whose first sector is i;
   nothing at all for an empty chain *)
Fixpoint chain (i : Z) (n : nat) : list Z :=
  match n with
  | O => []
  | S m => match m with O => [EOC] | S _ => (i + 1) :: chain (i + 1) m end
  end.

(* consecutive chains from sector i on; the second component is the first sector of each chain
   (sector.start; meaningless for an empty chain, which the writer never records) *)
Fixpoint alloc (i : Z) (lens : list nat) : list Z * list Z :=
  match lens with
  | [] => ([], [])
  | n :: r => let '(e, st) := alloc (i + Z.of_nat n) r in (chain i n ++ e, i :: st)
  end.

(* "for c.position&0x1FF != 0 { c.writeUint32(endOfChain) }": fill the last table sector *)
Definition pad128 (l : list Z) : list Z := l ++ repeat EOC ((128 - length l mod 128) mod 128)%nat.

Definition nsec (size : Z) : nat := Z.to_nat (fat_sectors_of size).
Definition nmini (size : Z) : nat := Z.to_nat (mini_sectors_of size).

(* the lengths of the chains kept in the FAT, in the order the writer lays the sectors out:
   mini FAT, directory, the streams of 4096 bytes and more in directory order, the mini stream container *)
Definition fat_lens (g : geometry) (sizes : list Z) : list nat :=
  Z.to_nat (g_minifat g) :: Z.to_nat (g_dir g) :: map nsec sizes ++ [Z.to_nat ((g_mini g + 7) / 8)].

(* FAT as written: one DIFSECT word per DIFAT sector, one FATSECT word per FAT sector, the chains, padding *)
Definition fat_table (g : geometry) (sizes : list Z) : list Z * list Z :=
  let '(e, st) := alloc (g_difat g + g_fat g) (fat_lens g sizes) in
  (pad128 (repeat DIFSECT (Z.to_nat (g_difat g)) ++ repeat FATSECT (Z.to_nat (g_fat g)) ++ e), st).

(* mini FAT as written: chains of 64-byte mini sectors for the streams below 4096 bytes, numbered from 0 *)
Definition minifat_table (sizes : list Z) : list Z * list Z :=
  let '(e, st) := alloc 0 (map nmini sizes) in (pad128 e, st).

(* writeMSAT: the 109 header slots, then 127 slots and a next pointer per DIFAT sector; FAT sector k is sector d + k *)
Definition msat_slot (g : geometry) (k : Z) : Z := if k <? g_fat g then g_difat g + k else FREE.
Fixpoint seqZ (i : Z) (n : nat) : list Z := match n with O => [] | S m => i :: seqZ (i + 1) m end.
Definition msat_header (g : geometry) : list Z := map (msat_slot g) (seqZ 0 109).
Definition msat_sector (g : geometry) (o : Z) : list Z :=
  map (msat_slot g) (seqZ (109 + 127 * o) 127) ++ [if o =? g_difat g - 1 then EOC else o + 1].

(* ---------- the reader ---------- *)
(* follow a table from sector s; None when the chain leaves the table or does not end within fuel steps *)
Fixpoint walk (t : list Z) (fuel : nat) (s : Z) : option (list Z) :=
  if s =? EOC then Some [] else
  match fuel with
  | O => None
  | S k =>
    if (s <? 0) || (Z.of_nat (length t) <=? s) then None
    else match walk t k (nth (Z.to_nat s) t FREE) with Some l => Some (s :: l) | None => None end
  end.

(* the FAT sectors a reader finds through the header slots and the DIFAT chain *)
Fixpoint msat_walk (g : geometry) (fuel : nat) (o : Z) : option (list Z) :=
  if o =? EOC then Some [] else
  match fuel with
  | O => None
  | S k =>
    let sec := msat_sector g o in
    match msat_walk g k (last sec FREE) with
    | Some l => Some (filter (fun v => negb (v =? FREE)) (removelast sec) ++ l)
    | None => None
    end
  end.
Definition msat_read (g : geometry) : option (list Z) :=
  match msat_walk g (S (Z.to_nat (g_difat g))) (if g_difat g =? 0 then EOC else 0) with
  | Some l => Some (filter (fun v => negb (v =? FREE)) (msat_header g) ++ l)
  | None => None
  end.

(* ---------- sector contents ---------- *)
(* a sector image: sector number -> content; the writer stores the blocks of a stream at explicit positions
   ((sector.start+1)<<9 for the big streams, start<<6 inside the mini stream container) *)
Definition image := Z -> bytes.
Fixpoint put_blocks (img : image) (s : Z) (bs : list bytes) : image :=
  match bs with
  | [] => img
  | b :: r => put_blocks (fun k => if k =? s then b else img k) (s + 1) r
  end.

(* content cut into blocks of bsz bytes, the last one zero padded *)
Fixpoint blocks_of (bsz : nat) (n : nat) (l : bytes) : list bytes :=
  match n with
  | O => []
  | S m => (firstn bsz l ++ repeat 0 (bsz - length (firstn bsz l))%nat) :: blocks_of bsz m (skipn bsz l)
  end.

(* what the writer does with the streams that have chains of their own: stream j goes to the sectors from start j on *)
Fixpoint put_streams (bsz : nat) (img : image) (starts : list Z) (lens : list nat) (contents : list bytes) : image :=
  match starts, lens, contents with
  | s :: st, n :: ln, c :: cs => put_streams bsz (put_blocks img s (blocks_of bsz n c)) st ln cs
  | _, _, _ => img
  end.

(* what a reader extracts: the sectors of the chain, cut to the size in the directory entry *)
Definition read_stream (img : image) (t : list Z) (fuel : nat) (start : Z) (size : nat) : option bytes :=
  match walk t fuel start with
  | Some secs => Some (firstn size (concat (map img secs)))
  | None => None
  end.

(* ---------- mini streams: two levels ---------- *)
(* the mini stream container as bytes: mini sectors 0 .. n-1 one after the other (64 bytes each) *)
Definition container_bytes (mimg : image) (n : nat) : bytes := concat (map mimg (seqZ 0 n)).

(* a reader of a stream below 4096 bytes: follow the mini FAT from the start in the directory entry, take mini
   sector m as bytes [64 m, 64 m + 64) of the container, cut to the stream size *)
Definition read_mini (cont : bytes) (mt : list Z) (fuel : nat) (start : Z) (size : nat) : option bytes :=
  match walk mt fuel start with
  | Some secs => Some (firstn size (concat (map (fun m => firstn 64 (skipn (Z.to_nat (64 * m)) cont)) secs)))
  | None => None
  end.
