(* C13 model: ECMA-376 standard encryption package layer (crypt.go:Encrypt/encrypt, standardDecrypt) over an
   abstract block cipher, and the sector geometry of the compound-file writer (crypt.go:cfb.locate). *)
From VF Require Import Base.Prelude Generated.Consts.

(* ---------- little-endian length prefix ---------- *)
Fixpoint le_encode (n : nat) (v : Z) : bytes :=
  match n with O => [] | S k => (v mod 256) :: le_encode k (v / 256) end.
Fixpoint le_decode (l : bytes) : Z :=
  match l with [] => 0 | b :: r => b + 256 * le_decode r end.

(* ---------- ECB over 16-byte blocks ---------- *)
Fixpoint blocks (fuel : nat) (l : bytes) : list bytes :=     (* complete 16-byte blocks only *)
  match fuel with
  | O => []
  | S f => if (16 <=? length l)%nat then firstn 16 l :: blocks f (skipn 16 l) else []
  end.
Definition pad16 (l : bytes) : bytes := l ++ repeat 0 ((16 - length l mod 16) mod 16)%nat.

Section Cipher.
Variable E D : bytes -> bytes.                 (* AES-128 block encryption / decryption under the derived key *)

(* crypt.go:Encrypt: 8-byte size, then the zero-padded package block by block *)
Definition encrypt_pkg (b : bytes) : bytes :=
  le_encode 8 (Z.of_nat (length b)) ++ concat (map E (blocks (length b + 16) (pad16 b))).

(* crypt.go:standardDecrypt (after fix 4e6e13b): size prefix, complete blocks, truncation to the size *)
Definition decrypt_pkg (s : bytes) : res bytes :=
  if (length s <? 8)%nat then Err 30
  else
    let size := le_decode (firstn 8 s) in
    let x := skipn 8 s in
    let dec := concat (map D (blocks (length x) x)) ++ repeat 0 (length x mod 16)%nat in
    Ok (if size <? Z.of_nat (length dec) then firstn (Z.to_nat size) dec else dec).
End Cipher.

(* ---------- compound file geometry: crypt.go:cfb.locate ---------- *)
Definition mini_cutoff : Z := 4096.
Definition mini_sectors_of (size : Z) : Z := if (0 <? size) && (size <? mini_cutoff) then (size + 63) / 64 else 0.
Definition fat_sectors_of (size : Z) : Z := if mini_cutoff <=? size then (size + 511) / 512 else 0.
Definition sumZ (l : list Z) : Z := fold_left Z.add l 0.

Definition difat_for (f : Z) : Z := if f >? 109 then (f - 109 + 126) / 127 else 0.   (* ceil((F-109)/127) *)

Fixpoint fat_loop (fuel : nat) (sectors f : Z) : option (Z * Z) :=
  match fuel with
  | O => None
  | S k => let d := difat_for f in
           if (sectors + f + d + 127) / 128 >? f then fat_loop k sectors (f + 1) else Some (f, d)
  end.

Record geometry := mkGeo {
  g_difat : Z; g_fat : Z; g_minifat : Z; g_dir : Z; g_big : Z; g_mini : Z; g_ministream_start : Z; g_end : Z }.

(* the loop of cfb.locate has no bound of its own; the model runs it on fuel (never exhausted below 244 MiB:
   C13_locate_total).  The fuel is a parameter of the definition the proofs are about, so that no proof ever
   meets a unary numeral. *)
Definition locate_with (fuel : nat) (sizes : list Z) (npaths : Z) : option geometry :=
  let mini := sumZ (map mini_sectors_of sizes) in
  let big := sumZ (map fat_sectors_of sizes) in
  let dir := (npaths + 3) / 4 in
  let ministream := (mini + 7) / 8 in
  let minifat := (mini + 127) / 128 in
  let sectors := ministream + big + dir + minifat in
  match fat_loop fuel sectors ((sectors + 127) / 128) with
  | Some (f, d) =>
    let start0 := 1 + d + f + minifat + dir + big in
    Some (mkGeo d f minifat dir big mini start0 (start0 + ministream))
  | None => None
  end.
Definition fat_fuel : nat := Z.to_nat 4096.
Definition locate : list Z -> Z -> option geometry := locate_with fat_fuel.
