From VF Require Import Base.Prelude Generated.Consts C14.Model.
From Coq Require Import ZifyBool ZifyNat.

Definition nums_ok (rs : list (Z * Z)) : Prop := Forall (fun p => 0 <= snd p <= TotalRows) rs.

Lemma pass1_bounds rs : forall row n pl, nums_ok rs -> 0 <= row -> pass1 rs row = (n, pl) ->
  row <= n /\ n <= Z.max row TotalRows + Z.of_nat (length rs) /\
  length pl = length rs /\
  forall idx, In (Some idx) pl -> 0 <= idx < n.
Proof.
  induction rs as [|[r num] rs IH]; intros row n pl Hok Hrow H; cbn [pass1] in H.
  - inversion H; subst. cbn [length]. refine (conj (Z.le_refl _) (conj _ (conj eq_refl _))); [lia|intros idx []].
  - inversion Hok as [|? ? Hnum Hok']; subst. cbn [snd] in Hnum.
    destruct (in_sheet r) eqn:Ein; cbn [negb] in H.
    + unfold in_sheet in Ein. destruct (Z.eqb_spec r 0) as [E0|N0]; [|destruct (Z.eqb_spec r row) as [Er|Nr]]; cbn [orb] in H.
      * (* r = 0 *)
        set (row1 := if row <? num then num else row) in *. set (row2 := if num =? 0 then row1 + 1 else row1) in *.
        destruct (pass1 rs row2) as [n' pl'] eqn:E. inversion H; subst n pl. clear H.
        assert (H2 : 0 <= row2 /\ row <= row2 /\ row2 <= Z.max row TotalRows + 1) by (unfold row2, row1; destruct (Z.ltb_spec row num), (Z.eqb_spec num 0); lia).
        destruct (IH row2 n' pl' Hok' ltac:(lia) E) as (G1 & G2 & G3 & G4). cbn [length].
        refine (conj _ (conj _ (conj _ _))); [lia|lia|now rewrite G3|].
        intros idx [Hi|Hi]; [|now apply G4]. inversion Hi; subst idx.
        unfold row2, row1 in *. destruct (Z.ltb_spec 0 num), (Z.ltb_spec row num), (Z.eqb_spec num 0); lia.
      * (* r = row, r <> 0 *)
        set (row1 := if row <? num then num else row) in *. set (row2 := if num =? 0 then row1 + 1 else row1) in *.
        destruct (pass1 rs row2) as [n' pl'] eqn:E. inversion H; subst n pl. clear H.
        assert (H2 : 0 <= row2 /\ row <= row2 /\ row2 <= Z.max row TotalRows + 1) by (unfold row2, row1; destruct (Z.ltb_spec row num), (Z.eqb_spec num 0); lia).
        destruct (IH row2 n' pl' Hok' ltac:(lia) E) as (G1 & G2 & G3 & G4). cbn [length].
        refine (conj _ (conj _ (conj _ _))); [lia|lia|now rewrite G3|].
        intros idx [Hi|Hi]; [|now apply G4]. inversion Hi; subst idx.
        unfold row2, row1 in *. destruct (Z.ltb_spec 0 num), (Z.ltb_spec row num), (Z.eqb_spec num 0); lia.
      * (* a numbered row *)
        set (row' := if row <? r then r else row) in *.
        destruct (pass1 rs row') as [n' pl'] eqn:E. inversion H; subst n pl. clear H.
        assert (H2 : 0 <= row' /\ row <= row' /\ r <= row' /\ row' <= Z.max row TotalRows) by (unfold row'; destruct (Z.ltb_spec row r); lia).
        destruct (IH row' n' pl' Hok' ltac:(lia) E) as (G1 & G2 & G3 & G4). cbn [length].
        refine (conj _ (conj _ (conj _ _))); [lia|lia|now rewrite G3|].
        intros idx [Hi|Hi]; [|now apply G4]. inversion Hi; subst idx. lia.
    + destruct (pass1 rs row) as [n' pl'] eqn:E. inversion H; subst n pl. clear H.
      destruct (IH row n' pl' Hok' Hrow E) as (G1 & G2 & G3 & G4). cbn [length].
      refine (conj G1 (conj _ (conj _ _))); [lia|now rewrite G3|].
      intros idx [Hi|Hi]; [discriminate|now apply G4].
Qed.

(* whatever the r attributes are: the allocation is bounded by the sheet limit plus the number of rows in the file,
   and every write lands inside it *)
Theorem check_sheet_safe rs : nums_ok rs ->
  let '(n, pl) := check_sheet rs in
  0 <= n <= TotalRows + Z.of_nat (length rs) /\ length pl = length rs /\ forall idx, In (Some idx) pl -> 0 <= idx < n.
Proof.
  intros Hok. unfold check_sheet. destruct (pass1 rs 0) as [n pl] eqn:E.
  destruct (pass1_bounds rs 0 n pl Hok ltac:(lia) E) as (G1 & G2 & G3 & G4).
  assert (0 <= TotalRows) by (vm_compute; discriminate).
  repeat split; try assumption; try lia; apply G4; assumption.
Qed.

Theorem lookup_guard_safe idx n : match lookup_guard idx n with Some i => 0 <= i < n | None => idx < 0 \/ n <= idx end.
Proof. unfold lookup_guard. destruct (Z.leb_spec 0 idx), (Z.ltb_spec idx n); cbn; lia. Qed.

(* ---------- checkRow ---------- *)
Lemma fold_max_ge : forall cols c, In c cols -> c <= fold_right Z.max 0 cols.
Proof.
  induction cols as [|x r IH]; intros c Hin; [destruct Hin|].
  cbn [fold_right]. destruct Hin as [->|Hin]; [lia|]. specialize (IH c Hin). lia.
Qed.

Lemma place_cells_ok : forall cols k target, (forall c, In c cols -> 1 <= c <= Z.of_nat (length target)) ->
  exists t, place_cells cols k target = Ok t /\ length t = length target.
Proof.
  induction cols as [|col rest IH]; intros k target H; cbn [place_cells].
  - eexists; split; reflexivity.
  - pose proof (H col (or_introl eq_refl)) as Hc.
    destruct ((1 <=? col) && (col <=? Z.of_nat (length target))) eqn:E; [|lia].
    assert (L : length (firstn (Z.to_nat (col - 1)) target ++ Some k :: skipn (Z.to_nat col) target) = length target).
    { rewrite app_length, firstn_length. cbn [length]. rewrite skipn_length. lia. }
    destruct (IH (S k) _ ltac:(intros c Hin; rewrite L; apply H; now right)) as (t & Ht & Lt).
    exists t. split; [exact Ht|]. rewrite Lt. exact L.
Qed.

Lemma assign_cols_pos : forall cells rc, 0 <= rc -> (forall c, In (Some c) cells -> 1 <= c) ->
  forall c, In c (assign_cols cells rc) -> 1 <= c.
Proof.
  induction cells as [|x rest IH]; intros rc Hrc Hpos c Hin; [destruct Hin|].
  cbn [assign_cols] in Hin. destruct x as [col|].
  - destruct Hin as [<-|Hin]; [apply Hpos; now left|].
    apply (IH (if rc + 1 <? col then col else rc + 1)); [destruct (rc + 1 <? col) eqn:E; lia| |exact Hin].
    intros c' Hc'. apply Hpos. now right.
  - destruct Hin as [<-|Hin]; [lia|]. apply (IH (rc + 1)); [lia| |exact Hin]. intros c' Hc'. apply Hpos. now right.
Qed.

(* with the width taken as the largest column of the row, no list of cell references makes checkRow index outside
   the row it allocated, and the rebuilt row has exactly that width *)
Theorem check_row_safe cells : (forall c, In (Some c) cells -> 1 <= c) ->
  exists t, check_row cells = Ok t /\
    (length t = length cells \/ Z.of_nat (length t) = width_max (assign_cols cells 0)).
Proof.
  intros Hpos. unfold check_row, check_row_with.
  destruct (Z.of_nat (length cells) <? width_max (assign_cols cells 0)) eqn:E.
  - destruct (place_cells_ok (assign_cols cells 0) O (repeat None (Z.to_nat (width_max (assign_cols cells 0))))) as (t & Ht & Lt).
    + intros c Hin. rewrite repeat_length. split; [apply (assign_cols_pos cells 0 ltac:(lia) Hpos c Hin)|].
      pose proof (fold_max_ge _ _ Hin). unfold width_max. lia.
    + exists t. split; [exact Ht|]. right. rewrite Lt, repeat_length. unfold width_max in *. lia.
  - eexists. split; [reflexivity|]. left.
    assert (G : forall n k, length (ident_placement n k) = n) by (induction n; intros; cbn; [reflexivity|rewrite IHn; reflexivity]).
    apply G.
Qed.

(* the rule before the repair (width = column of the last cell) is refuted by a row whose cells are not in
   ascending order: <c r="E1"/><c r="C1"/> *)
Lemma check_row_before_repair_refuted : exists cells, (forall c, In (Some c) cells -> 1 <= c) /\
  check_row_before_repair cells = Panic 1.
Proof. exists [Some 5; Some 3]. split; [intros c [E|[E|[]]]; inversion E; lia|vm_compute; reflexivity]. Qed.
