From VF Require Import Base.Prelude Generated.Consts C14.Model.
From Coq Require Import ZifyBool ZifyNat.

Definition nums_ok (rs : list (Z * Z)) : Prop := Forall (fun p => 0 <= snd p <= TotalRows) rs.

Lemma pass1_bounds rs : forall row n pl, nums_ok rs -> 0 <= row -> pass1 rs row = (n, pl) ->
  row <= n /\ n <= Z.max row TotalRows + Z.of_nat (length rs) /\
  length pl = length rs /\
  forall idx, In (Some idx) pl -> 0 <= idx < n.
Proof.
  induction rs as [|[r num] rs IH]; intros row n pl Hok Hrow H; cbn [pass1] in H.
  - inversion H; subst. cbn [length]. refine (conj (Z.le_refl _) (conj _ (conj eq_refl _))); [lia|intros idx []].
  - inversion Hok as [|? ? Hnum Hok']; subst. cbn [snd] in Hnum.
    destruct (in_sheet r) eqn:Ein; cbn [negb] in H.
    + unfold in_sheet in Ein. destruct (Z.eqb_spec r 0) as [E0|N0]; [|destruct (Z.eqb_spec r row) as [Er|Nr]]; cbn [orb] in H.
      * (* r = 0 *)
        set (row1 := if row <? num then num else row) in *. set (row2 := if num =? 0 then row1 + 1 else row1) in *.
        destruct (pass1 rs row2) as [n' pl'] eqn:E. inversion H; subst n pl. clear H.
        assert (H2 : 0 <= row2 /\ row <= row2 /\ row2 <= Z.max row TotalRows + 1) by (unfold row2, row1; destruct (Z.ltb_spec row num), (Z.eqb_spec num 0); lia).
        destruct (IH row2 n' pl' Hok' ltac:(lia) E) as (G1 & G2 & G3 & G4). cbn [length].
        refine (conj _ (conj _ (conj _ _))); [lia|lia|now rewrite G3|].
        intros idx [Hi|Hi]; [|now apply G4]. inversion Hi; subst idx.
        unfold row2, row1 in *. destruct (Z.ltb_spec 0 num), (Z.ltb_spec row num), (Z.eqb_spec num 0); lia.
      * (* r = row, r <> 0 *)
        set (row1 := if row <? num then num else row) in *. set (row2 := if num =? 0 then row1 + 1 else row1) in *.
        destruct (pass1 rs row2) as [n' pl'] eqn:E. inversion H; subst n pl. clear H.
        assert (H2 : 0 <= row2 /\ row <= row2 /\ row2 <= Z.max row TotalRows + 1) by (unfold row2, row1; destruct (Z.ltb_spec row num), (Z.eqb_spec num 0); lia).
        destruct (IH row2 n' pl' Hok' ltac:(lia) E) as (G1 & G2 & G3 & G4). cbn [length].
        refine (conj _ (conj _ (conj _ _))); [lia|lia|now rewrite G3|].
        intros idx [Hi|Hi]; [|now apply G4]. inversion Hi; subst idx.
        unfold row2, row1 in *. destruct (Z.ltb_spec 0 num), (Z.ltb_spec row num), (Z.eqb_spec num 0); lia.
      * (* a numbered row *)
        set (row' := if row <? r then r else row) in *.
        destruct (pass1 rs row') as [n' pl'] eqn:E. inversion H; subst n pl. clear H.
        assert (H2 : 0 <= row' /\ row <= row' /\ r <= row' /\ row' <= Z.max row TotalRows) by (unfold row'; destruct (Z.ltb_spec row r); lia).
        destruct (IH row' n' pl' Hok' ltac:(lia) E) as (G1 & G2 & G3 & G4). cbn [length].
        refine (conj _ (conj _ (conj _ _))); [lia|lia|now rewrite G3|].
        intros idx [Hi|Hi]; [|now apply G4]. inversion Hi; subst idx. lia.
    + destruct (pass1 rs row) as [n' pl'] eqn:E. inversion H; subst n pl. clear H.
      destruct (IH row n' pl' Hok' Hrow E) as (G1 & G2 & G3 & G4). cbn [length].
      refine (conj G1 (conj _ (conj _ _))); [lia|now rewrite G3|].
      intros idx [Hi|Hi]; [discriminate|now apply G4].
Qed.

(* whatever the r attributes are: the allocation is bounded by the sheet limit plus the number of rows in the file,
   and every write lands inside it *)
Theorem check_sheet_safe rs : nums_ok rs ->
  let '(n, pl) := check_sheet rs in
  0 <= n <= TotalRows + Z.of_nat (length rs) /\ length pl = length rs /\ forall idx, In (Some idx) pl -> 0 <= idx < n.
Proof.
  intros Hok. unfold check_sheet. destruct (pass1 rs 0) as [n pl] eqn:E.
  destruct (pass1_bounds rs 0 n pl Hok ltac:(lia) E) as (G1 & G2 & G3 & G4).
  assert (0 <= TotalRows) by (vm_compute; discriminate).
  repeat split; try assumption; try lia; apply G4; assumption.
Qed.

Theorem lookup_guard_safe idx n : match lookup_guard idx n with Some i => 0 <= i < n | None => idx < 0 \/ n <= idx end.
Proof. unfold lookup_guard. destruct (Z.leb_spec 0 idx), (Z.ltb_spec idx n); cbn; lia. Qed.
