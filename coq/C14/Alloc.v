(* C14, allocation side of rows.go:checkRow: the row it rebuilds is never longer than the largest column a cell
   reference names (at most MaxColumns after CellNameToCoordinates) plus the number of cells the row really carries -
   memory in proportion to the input, for every list of cell references. *)
From VF Require Import Base.Prelude Generated.Consts C14.Model C14.Proofs.
From Coq Require Import ZifyBool ZifyNat.

Lemma assign_cols_bound M : forall cells rc, (forall c, In (Some c) cells -> c <= M) ->
  forall c, In c (assign_cols cells rc) -> c <= Z.max M rc + Z.of_nat (length cells).
Proof.
  induction cells as [|x rest IH]; intros rc HM c Hin; [destruct Hin|].
  cbn [assign_cols] in Hin. cbn [length]. destruct x as [col|].
  - assert (Hcol : col <= M) by (apply HM; now left).
    destruct Hin as [<-|Hin]; [lia|].
    specialize (IH (if rc + 1 <? col then col else rc + 1) (fun c' Hc' => HM c' (or_intror Hc')) c Hin).
    destruct (rc + 1 <? col) eqn:E; lia.
  - destruct Hin as [<-|Hin]; [lia|].
    specialize (IH (rc + 1) (fun c' Hc' => HM c' (or_intror Hc')) c Hin). lia.
Qed.

Lemma fold_max_le : forall cols b, 0 <= b -> (forall c, In c cols -> c <= b) -> fold_right Z.max 0 cols <= b.
Proof.
  induction cols as [|x r IH]; intros b Hb H; cbn [fold_right]; [assumption|].
  pose proof (H x (or_introl eq_refl)). specialize (IH b Hb (fun c Hc => H c (or_intror Hc))). lia.
Qed.

Theorem check_row_alloc M cells : 0 <= M -> (forall c, In (Some c) cells -> 1 <= c <= M) ->
  exists t, check_row cells = Ok t /\ Z.of_nat (length t) <= M + Z.of_nat (length cells).
Proof.
  intros HM Hc. destruct (check_row_safe cells (fun c H => proj1 (Hc c H))) as (t & Ht & [L|L]).
  - exists t. split; [assumption|]. lia.
  - exists t. split; [assumption|]. rewrite L. unfold width_max. apply fold_max_le; [lia|].
    intros c Hin. pose proof (assign_cols_bound M cells 0 (fun c' H => proj2 (Hc c' H)) c Hin). lia.
Qed.
