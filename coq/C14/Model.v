(* C14: the post-decode layer facing adversarial numbers: row placement of excelize.go:checkSheet over arbitrary
   r attributes (any integer), and the guarded table lookups (shared strings, cell formats, merged-cell rectangles).
   An input row is (r, num): its r attribute and the row number its cell reference names (0: the cell has none);
   num is validated by CellNameToCoordinates, r is not validated by anything before checkSheet. *)
From VF Require Import Base.Prelude Generated.Consts.

Definition in_sheet (r : Z) : bool := (0 <=? r) && (r <=? TotalRows).

(* first pass of checkSheet: running maximum [row]; per input row the index (0-based) of the row its cell ends in,
   None when the row is dropped *)
Fixpoint pass1 (rs : list (Z * Z)) (row : Z) : Z * list (option Z) :=
  match rs with
  | [] => (row, [])
  | (r, num) :: rest =>
    if negb (in_sheet r) then let '(n, pl) := pass1 rest row in (n, None :: pl)
    else if (r =? 0) || (r =? row) then
      let row1 := if row <? num then num else row in
      let row2 := if num =? 0 then row1 + 1 else row1 in
      let idx := if 0 <? num then num - 1 else row2 - 1 in
      let '(n, pl) := pass1 rest row2 in (n, Some idx :: pl)
    else
      let row' := if row <? r then r else row in
      let '(n, pl) := pass1 rest row' in (n, Some (r - 1) :: pl)
  end.

(* make([]xlsxRow, n): n rows are allocated; every placement writes at an index *)
Definition check_sheet (rs : list (Z * Z)) : Z * list (option Z) := pass1 rs 0.

(* guarded lookups: an index taken from the file selects an entry only when it is one *)
Definition lookup_guard (idx n : Z) : option Z := if (0 <=? idx) && (idx <? n) then Some idx else None.
