(* C14: the post-decode layer facing adversarial numbers: row placement of excelize.go:checkSheet over arbitrary
   r attributes (any integer), and the guarded table lookups (shared strings, cell formats, merged-cell rectangles).
   An input row is (r, num): its r attribute and the row number its cell reference names (0: the cell has none);
   num is validated by CellNameToCoordinates, r is not validated by anything before checkSheet. *)
From VF Require Import Base.Prelude Generated.Consts.

Definition in_sheet (r : Z) : bool := (0 <=? r) && (r <=? TotalRows).

(* first pass of checkSheet: running maximum [row]; per input row the index (0-based) of the row its cell ends in,
   None when the row is dropped *)
Fixpoint pass1 (rs : list (Z * Z)) (row : Z) : Z * list (option Z) :=
  match rs with
  | [] => (row, [])
  | (r, num) :: rest =>
    if negb (in_sheet r) then let '(n, pl) := pass1 rest row in (n, None :: pl)
    else if (r =? 0) || (r =? row) then
      let row1 := if row <? num then num else row in
      let row2 := if num =? 0 then row1 + 1 else row1 in
      let idx := if 0 <? num then num - 1 else row2 - 1 in
      let '(n, pl) := pass1 rest row2 in (n, Some idx :: pl)
    else
      let row' := if row <? r then r else row in
      let '(n, pl) := pass1 rest row' in (n, Some (r - 1) :: pl)
  end.

(* make([]xlsxRow, n): n rows are allocated; every placement writes at an index *)
Definition check_sheet (rs : list (Z * Z)) : Z * list (option Z) := pass1 rs 0.

(* guarded lookups: an index taken from the file selects an entry only when it is one *)
Definition lookup_guard (idx n : Z) : option Z := if (0 <=? idx) && (idx <? n) then Some idx else None.

(* ---------- rows.go:checkRow on one row, over arbitrary cell references ----------
   A cell is given by the column its r attribute names (already validated by CellNameToCoordinates: 1..MaxColumns)
   or None when it has no r attribute.  First loop: cells without r get the running column; the running column
   jumps to any larger r.  Second step: when there are fewer cells than the target width the row is rebuilt as
   [width] filler cells and every source cell is stored at index column-1 - a Go index expression, which panics
   outside the slice.  [width_rule] is how the width is taken: from the LAST cell (the rule before repair) or as the
   largest column of the row (after repair). *)
Fixpoint assign_cols (cells : list (option Z)) (rcount : Z) : list Z :=
  match cells with
  | [] => []
  | c :: rest =>
    let rc := rcount + 1 in
    match c with
    | Some col => col :: assign_cols rest (if rc <? col then col else rc)
    | None => rc :: assign_cols rest rc
    end
  end.

Definition width_last (cols : list Z) : Z := last cols 0.
Definition width_max (cols : list Z) : Z := fold_right Z.max 0 cols.

(* target.[col-1] := source cell k; Panic 1 = index out of range *)
Fixpoint place_cells (cols : list Z) (k : nat) (target : list (option nat)) : res (list (option nat)) :=
  match cols with
  | [] => Ok target
  | col :: rest =>
    if (1 <=? col) && (col <=? Z.of_nat (length target)) then
      place_cells rest (S k) (firstn (Z.to_nat (col - 1)) target ++ Some k :: skipn (Z.to_nat col) target)
    else Panic 1
  end.

Fixpoint ident_placement (n k : nat) : list (option nat) :=
  match n with O => [] | S m => Some k :: ident_placement m (S k) end.

(* result: for every cell of the row after checkRow, the source cell it holds (None: a filler) *)
Definition check_row_with (width_rule : list Z -> Z) (cells : list (option Z)) : res (list (option nat)) :=
  let cols := assign_cols cells 0 in
  let w := width_rule cols in
  if Z.of_nat (length cells) <? w then place_cells cols O (repeat None (Z.to_nat w))
  else Ok (ident_placement (length cells) O).

Definition check_row : list (option Z) -> res (list (option nat)) := check_row_with width_max.
Definition check_row_before_repair : list (option Z) -> res (list (option nat)) := check_row_with width_last.
