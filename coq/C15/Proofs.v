From VF Require Import Base.Prelude C15.Model.
From Coq Require Import ZifyBool ZifyNat.

Lemma memz_In x l : memz x l = true <-> In x l.
Proof.
  unfold memz. rewrite existsb_exists. split.
  - intros (y & Hy & E). apply Z.eqb_eq in E. now subst.
  - intros H. exists x. split; [assumption|apply Z.eqb_refl].
Qed.

Lemma nth_error_set_nth {A} (l : list A) : forall i j x,
  nth_error (set_nth l i x) j = if (j =? i)%nat then (match nth_error l i with Some _ => Some x | None => None end) else nth_error l j.
Proof.
  induction l as [|y l IH]; intros i j x.
  - cbn. destruct (j =? i)%nat; destruct i, j; reflexivity.
  - destruct i as [|i], j as [|j]; cbn [set_nth nth_error Nat.eqb]; try reflexivity. apply IH.
Qed.

(* ---- invariant: threads run sections of the table, and no lock is held by two threads ---- *)
Definition in_table (rs : list rec) (t : thread) : Prop :=
  (forall a, In a (todo t) -> In a rs) /\
  match cur t with
  | Some (a, got, _) => In a rs /\ got = firstn (length got) (r_locks a) /\ (length got <= length (r_locks a))%nat
  | None => True
  end.

Definition Inv (rs : list rec) (ts : list thread) : Prop :=
  (forall i t, nth_error ts i = Some t -> in_table rs t) /\
  (forall i j ti tj l, i <> j -> nth_error ts i = Some ti -> nth_error ts j = Some tj -> In l (holds ti) -> In l (holds tj) -> False).

Lemma free_spec l ts : free l ts = true -> forall j t, nth_error ts j = Some t -> ~ In l (holds t).
Proof.
  unfold free. rewrite forallb_forall. intros H j t Hj Hin. specialize (H t (nth_error_In _ _ Hj)).
  apply memz_In in Hin. now rewrite Hin in H.
Qed.

Lemma firstn_snoc_nth {A} (l : list A) n x : nth_error l n = Some x -> firstn (S n) l = firstn n l ++ [x].
Proof. revert n; induction l as [|y l IH]; intros [|n] H; cbn in *; try discriminate; [now inversion H|]. now rewrite (IH n H). Qed.

Lemma Inv_step rs ts i ts' : Inv rs ts -> step ts i = Some ts' -> Inv rs ts'.
Proof.
  intros [H1 H2] Hs. unfold step in Hs. destruct (nth_error ts i) as [t|] eqn:Et; [|discriminate].
  destruct (tstep ts t) as [t'|] eqn:Ets; [|discriminate]. inversion Hs; subst ts'. clear Hs.
  pose proof (H1 i t Et) as [Htodo Hcur].
  (* facts about the new thread state *)
  assert (Ht' : in_table rs t' /\ (forall l, In l (holds t') -> In l (holds t) \/ (forall j tj, nth_error ts j = Some tj -> ~ In l (holds tj)))).
  { unfold tstep in Ets. destruct (cur t) as [[[a got] acc]|] eqn:Ec.
    - destruct Hcur as (Ha & Hgot & Hlen). destruct acc.
      + inversion Ets; subst t'. split; [split; [exact Htodo|exact I]|]. intros l [].
      + destruct (nth_error (r_locks a) (length got)) as [l0|] eqn:En.
        * destruct (free l0 ts) eqn:Ef; [|discriminate]. inversion Ets; subst t'. split.
          -- split; [exact Htodo|]. cbn [cur]. split; [exact Ha|]. rewrite app_length. cbn [length].
             replace (length got + 1)%nat with (S (length got)) by lia. split.
             ++ rewrite (firstn_snoc_nth _ _ _ En). now rewrite <- Hgot.
             ++ assert (length got < length (r_locks a))%nat by (apply nth_error_Some; congruence). lia.
          -- intros l Hl. unfold holds in *. cbn [cur] in Hl. rewrite Ec. apply in_app_or in Hl. destruct Hl as [Hl|[<-|[]]]; [now left|].
             right. intros j tj Hj. exact (free_spec l0 ts Ef j tj Hj).
        * inversion Ets; subst t'. split; [split; [exact Htodo|cbn [cur]; auto]|].
          intros l Hl. left. unfold holds in *. cbn [cur] in Hl. now rewrite Ec.
    - destruct (todo t) as [|a rest] eqn:Etd; [discriminate|]. inversion Ets; subst t'. split.
      + split; [intros b Hb; apply Htodo; now right|]. cbn [cur]. split; [apply Htodo; now left|]. split; [reflexivity|cbn; lia].
      + intros l []. }
  destruct Ht' as [Hin Hheld]. split.
  - intros j tj Hj. rewrite nth_error_set_nth in Hj. destruct (Nat.eqb_spec j i).
    + rewrite Et in Hj. inversion Hj; subst. exact Hin.
    + eauto.
  - intros a b ta tb l Hab Ha Hb Hla Hlb. rewrite nth_error_set_nth in Ha, Hb.
    destruct (Nat.eqb_spec a i) as [Ea|Na], (Nat.eqb_spec b i) as [Eb|Nb]; try lia.
    + subst a. rewrite Et in Ha. inversion Ha; subst ta.
      destruct (Hheld l Hla) as [Hold|Hfree]; [exact (H2 i b t tb l Hab Et Hb Hold Hlb)|exact (Hfree b tb Hb Hlb)].
    + subst b. rewrite Et in Hb. inversion Hb; subst tb.
      destruct (Hheld l Hlb) as [Hold|Hfree]; [exact (H2 a i ta t l Hab Ha Et Hla Hold)|exact (Hfree a ta Ha Hla)].
    + exact (H2 a b ta tb l Hab Ha Hb Hla Hlb).
Qed.

Lemma Inv_reach rs ts0 ts : Inv rs ts0 -> reach ts0 ts -> Inv rs ts.
Proof. intros H0 Hr. induction Hr as [|ts i ts' _ IH Hs]; [assumption|]. exact (Inv_step rs ts i ts' IH Hs). Qed.

Lemma Inv_init rs ts0 : (forall t, In t ts0 -> cur t = None /\ forall a, In a (todo t) -> In a rs) -> Inv rs ts0.
Proof.
  intros H. split.
  - intros i t Hi. destruct (H t (nth_error_In _ _ Hi)) as [Hc Ht]. split; [exact Ht|now rewrite Hc].
  - intros i j ti tj l _ Hi _ Hl _. destruct (H ti (nth_error_In _ _ Hi)) as [Hc _]. unfold holds in Hl. now rewrite Hc in Hl.
Qed.

Lemma inter_spec l1 l2 : inter l1 l2 = true -> exists x, In x l1 /\ In x l2.
Proof. unfold inter. rewrite existsb_exists. intros (x & H1 & H2). apply memz_In in H2. eauto. Qed.

(* ---- the lockset theorem ---- *)
Theorem lockset_sound rs ts0 ts :
  check_records rs = true ->
  (forall t, In t ts0 -> cur t = None /\ forall a, In a (todo t) -> In a rs) ->
  reach ts0 ts -> ~ race ts.
Proof.
  intros Hchk H0 Hr (i & j & ti & tj & a & b & Hij & Hi & Hj & Hai & Haj & Hres & Hw).
  destruct (Inv_reach rs ts0 ts (Inv_init rs ts0 H0) Hr) as [H1 H2].
  (* both threads hold all the locks of their records *)
  assert (G : forall k t c, nth_error ts k = Some t -> at_access t = Some c -> In c rs /\ holds t = r_locks c).
  { intros k t c Hk Hat. destruct (H1 k t Hk) as [_ Hc]. unfold at_access, holds in *.
    destruct (cur t) as [[[a0 got] acc]|]; [|discriminate]. destruct acc; [discriminate|].
    destruct (Nat.eqb_spec (length got) (length (r_locks a0))) as [E|]; [|discriminate]. inversion Hat; subst c.
    destruct Hc as (Hin & Hgot & _). split; [exact Hin|]. rewrite Hgot, E. apply firstn_all. }
  destruct (G i ti a Hi Hai) as [Hain Hha]. destruct (G j tj b Hj Haj) as [Hbin Hhb].
  unfold check_records in Hchk. rewrite forallb_forall in Hchk. specialize (Hchk a Hain). rewrite forallb_forall in Hchk. specialize (Hchk b Hbin).
  unfold compat in Hchk. apply orb_prop in Hchk. destruct Hchk as [Hc|Hc].
  - apply negb_true_iff in Hc. rewrite (proj2 (Z.eqb_eq _ _) Hres), Hw in Hc. discriminate.
  - destruct (inter_spec _ _ Hc) as (l & Hl1 & Hl2). apply (H2 i j ti tj l Hij Hi Hj); [now rewrite Hha|now rewrite Hhb].
Qed.
