(* C15: threads running the documented concurrency-safe functions, as sequences of critical sections taken from the
   generated lock table (one section per access record: acquire its locks one by one, access, release), under
   mutex semantics.  A data race is two different threads both about to access the same resource, one of them writing. *)
From VF Require Import Base.Prelude.

Definition rec := (Z * bool * list Z)%type.     (* resource, is-write, lock classes held *)
Definition r_res (a : rec) : Z := fst (fst a).
Definition r_write (a : rec) : bool := snd (fst a).
Definition r_locks (a : rec) : list Z := snd a.

Record thread := mkT {
  todo : list rec;                          (* sections still to run *)
  cur : option (rec * list Z * bool) }.     (* running section: record, locks acquired so far, access done *)

Definition holds (t : thread) : list Z := match cur t with Some (_, got, _) => got | None => [] end.
Definition memz (x : Z) (l : list Z) : bool := existsb (Z.eqb x) l.
Definition free (l : Z) (ts : list thread) : bool := forallb (fun t => negb (memz l (holds t))) ts.

(* one step of thread i; None when the thread cannot move (finished, or blocked on a lock) *)
Definition tstep (ts : list thread) (t : thread) : option thread :=
  match cur t with
  | None => match todo t with [] => None | a :: rest => Some (mkT rest (Some (a, [], false))) end
  | Some (a, got, false) =>
    match nth_error (r_locks a) (length got) with
    | Some l => if free l ts then Some (mkT (todo t) (Some (a, got ++ [l], false))) else None
    | None => Some (mkT (todo t) (Some (a, got, true)))     (* all locks held: the access happens *)
    end
  | Some (a, got, true) => Some (mkT (todo t) None)           (* release *)
  end.

Fixpoint set_nth {A} (l : list A) (i : nat) (x : A) : list A :=
  match l, i with [], _ => [] | _ :: r, O => x :: r | y :: r, S k => y :: set_nth r k x end.

Definition step (ts : list thread) (i : nat) : option (list thread) :=
  match nth_error ts i with
  | Some t => match tstep ts t with Some t' => Some (set_nth ts i t') | None => None end
  | None => None
  end.

Inductive reach (ts0 : list thread) : list thread -> Prop :=
| reach_refl : reach ts0 ts0
| reach_step ts i ts' : reach ts0 ts -> step ts i = Some ts' -> reach ts0 ts'.

(* about to access: every lock of the section is held and the access has not happened yet *)
Definition at_access (t : thread) : option rec :=
  match cur t with
  | Some (a, got, false) => if (length got =? length (r_locks a))%nat then Some a else None
  | _ => None
  end.

Definition race (ts : list thread) : Prop :=
  exists i j ti tj a b, i <> j /\ nth_error ts i = Some ti /\ nth_error ts j = Some tj /\
    at_access ti = Some a /\ at_access tj = Some b /\ r_res a = r_res b /\ (r_write a || r_write b = true).

(* the discipline, checked on the table: conflicting records share a lock *)
Definition inter (l1 l2 : list Z) : bool := existsb (fun x => memz x l2) l1.
Definition compat (a b : rec) : bool :=
  negb ((r_res a =? r_res b) && (r_write a || r_write b)) || inter (r_locks a) (r_locks b).
Definition check_records (rs : list rec) : bool := forallb (fun a => forallb (compat a) rs) rs.
Definition check_table (tbl : list (list rec)) : bool := check_records (concat tbl).

(* lock order: worksheet, then style sheet, then file, then shared strings (then the rest); every Lock call reachable
   from a documented function acquires a lock of higher rank than every lock already held *)
Definition rank (l : Z) : Z := if l =? 2 then 1 else if l =? 3 then 2 else if l =? 1 then 3 else if l =? 4 then 4 else 4 + l.
Definition order_ok (pairs : list (Z * Z)) : bool := forallb (fun p => rank (fst p) <? rank (snd p)) pairs.
