(* C15: an acyclic (ranked) lock order excludes deadlock, for any number of threads and any schedule. *)
From VF Require Import Base.Prelude C15.Model C15.Proofs.
From Coq Require Import ZifyBool ZifyNat.

(* every section takes its locks in strictly increasing rank *)
Fixpoint incr_rank (ls : list Z) : bool :=
  match ls with
  | a :: ((b :: _) as r) => (rank a <? rank b) && incr_rank r
  | _ => true
  end.

Definition finished (t : thread) : Prop := cur t = None /\ todo t = [].
Definition stuck (ts : list thread) : Prop := forall i, step ts i = None.
Definition deadlock (ts : list thread) : Prop := stuck ts /\ exists t, In t ts /\ ~ finished t.

(* the lock a thread is waiting for *)
Definition await (t : thread) : option Z :=
  match cur t with
  | Some (a, got, false) => nth_error (r_locks a) (length got)
  | _ => None
  end.

Lemma incr_rank_nth ls : incr_rank ls = true -> forall i j x y, (i < j)%nat -> nth_error ls i = Some x -> nth_error ls j = Some y -> rank x < rank y.
Proof.
  induction ls as [|a ls IH]; intros H i j x y Hij Hi Hj; [destruct i; discriminate|].
  assert (Htail : incr_rank ls = true) by (cbn [incr_rank] in H; destruct ls; [reflexivity|apply andb_prop in H; apply H]).
  assert (Hhead : forall k z, nth_error ls k = Some z -> rank a < rank z).
  { clear - H IH Htail. intros k. revert H. revert a. induction k as [|k IHk]; intros a H z Hz.
    - destruct ls as [|b ls]; [discriminate|]. cbn in Hz. inversion Hz; subst. cbn [incr_rank] in H. apply andb_prop in H. lia.
    - destruct ls as [|b ls]; [discriminate|]. cbn [nth_error] in Hz. cbn [incr_rank] in H. apply andb_prop in H. destruct H as [H1 H2].
      assert (rank b < rank z). { destruct k; [destruct ls as [|c ls]; [discriminate|]; cbn in Hz; inversion Hz; subst; cbn [incr_rank] in H2; apply andb_prop in H2; lia|].
        apply (IH H2 0%nat (S (S k)) b z ltac:(lia) eq_refl). exact Hz. }
      lia. }
  destruct i as [|i], j as [|j]; try lia.
  - cbn in Hi. inversion Hi; subst. cbn in Hj. exact (Hhead j y Hj).
  - cbn in Hi, Hj. apply (IH Htail i j x y ltac:(lia) Hi Hj).
Qed.

Lemma nth_error_firstn' {A} (l : list A) : forall n j, (j < n)%nat -> nth_error (firstn n l) j = nth_error l j.
Proof. induction l as [|x l IH]; intros [|n] [|j] H; cbn; try reflexivity; try lia. apply IH. lia. Qed.

Lemma free_false l ts : free l ts = false -> exists u, In u ts /\ In l (holds u).
Proof.
  unfold free. intros H. apply Bool.not_true_iff_false in H.
  destruct (existsb (fun t => memz l (holds t)) ts) eqn:E.
  - apply existsb_exists in E. destruct E as (u & Hu & Hm). exists u. split; [assumption|now apply memz_In].
  - exfalso. apply H. apply forallb_forall. intros t Ht. destruct (memz l (holds t)) eqn:Em; [|reflexivity].
    assert (existsb (fun t => memz l (holds t)) ts = true) by (apply existsb_exists; eauto). congruence.
Qed.

Lemma exists_max (l : list Z) : l <> [] -> exists m, In m l /\ forall x, In x l -> x <= m.
Proof.
  induction l as [|a l IH]; intros H; [contradiction|]. destruct l as [|b l].
  - exists a. split; [now left|]. intros x [<-|[]]. lia.
  - destruct (IH ltac:(discriminate)) as (m & Hm & Hmax). destruct (Z_le_gt_dec a m).
    + exists m. split; [now right|]. intros x [<-|Hx]; [assumption|now apply Hmax].
    + exists a. split; [now left|]. intros x [<-|Hx]; [lia|]. specialize (Hmax x Hx). lia.
Qed.

Theorem no_deadlock rs ts :
  (forall a, In a rs -> incr_rank (r_locks a) = true) ->
  Inv rs ts -> ~ deadlock ts.
Proof.
  intros Hrank [H1 _] [Hstuck (t0 & Ht0 & Hnf)].
  (* in a stuck state a thread is finished or waits for a held lock *)
  assert (Hcase : forall t, In t ts -> finished t \/ exists l, await t = Some l /\ exists u, In u ts /\ In l (holds u)).
  { intros t Ht. apply In_nth_error in Ht. destruct Ht as [i Hi]. specialize (Hstuck i). unfold step in Hstuck. rewrite Hi in Hstuck.
    destruct (tstep ts t) eqn:Et; [discriminate|]. unfold tstep in Et. unfold finished, await.
    destruct (cur t) as [[[a got] acc]|].
    - destruct acc; [discriminate|]. destruct (nth_error (r_locks a) (length got)) as [l|] eqn:En; [|discriminate].
      destruct (free l ts) eqn:Ef; [discriminate|]. right. exists l. split; [reflexivity|]. now apply free_false.
    - destruct (todo t); [left; auto|discriminate]. }
  (* a holder of an awaited lock waits for a lock of strictly higher rank *)
  assert (Hup : forall t l, In t ts -> await t = Some l -> exists u l', In u ts /\ await u = Some l' /\ rank l < rank l').
  { intros t l Ht Hl. destruct (Hcase t Ht) as [[Hc _]|(l0 & Hl0 & u & Hu & Hheld)]; [unfold await in Hl; rewrite Hc in Hl; discriminate|].
    rewrite Hl in Hl0. inversion Hl0; subst l0.
    destruct (Hcase u Hu) as [[Hc _]|(l' & Hl' & _)]; [unfold holds in Hheld; rewrite Hc in Hheld; destruct Hheld|].
    exists u, l'. split; [assumption|]. split; [assumption|].
    apply In_nth_error in Hu. destruct Hu as [j Hj]. destruct (H1 j u Hj) as [_ Hcur].
    unfold await in Hl'. unfold holds in Hheld. destruct (cur u) as [[[b gotb] accb]|]; [|destruct Hheld].
    destruct accb; [discriminate|]. destruct Hcur as (Hb & Hgot & Hlen).
    rewrite Hgot in Hheld. apply In_nth_error in Hheld. destruct Hheld as [k Hk].
    assert (Hk' : (k < length gotb)%nat).
    { assert (k < length (firstn (length gotb) (r_locks b)))%nat by (apply nth_error_Some; congruence). rewrite firstn_length in H. lia. }
    rewrite nth_error_firstn' in Hk by assumption.
    exact (incr_rank_nth _ (Hrank b Hb) k (length gotb) l l' Hk' Hk Hl'). }
  (* the unfinished thread waits; take the waiting thread whose lock has the highest rank *)
  destruct (Hcase t0 Ht0) as [Hf|(l0 & Hl0 & _)]; [contradiction|].
  set (waits := flat_map (fun t => match await t with Some l => [rank l] | None => [] end) ts).
  assert (Hne : waits <> []).
  { intros E. assert (Hin : In (rank l0) waits) by (apply in_flat_map; exists t0; split; [assumption|rewrite Hl0; now left]). rewrite E in Hin. destruct Hin. }
  destruct (exists_max waits Hne) as (m & Hm & Hmax).
  apply in_flat_map in Hm. destruct Hm as (t & Ht & Hm). destruct (await t) as [l|] eqn:El; [|destruct Hm]. destruct Hm as [<-|[]].
  destruct (Hup t l Ht El) as (u & l' & Hu & Hl' & Hlt).
  assert (Hin : In (rank l') waits) by (apply in_flat_map; exists u; split; [assumption|rewrite Hl'; now left]).
  specialize (Hmax _ Hin). lia.
Qed.

Theorem no_deadlock_reach rs ts0 ts :
  (forall a, In a rs -> incr_rank (r_locks a) = true) ->
  (forall t, In t ts0 -> cur t = None /\ forall a, In a (todo t) -> In a rs) ->
  reach ts0 ts -> ~ deadlock ts.
Proof. intros Hr H0 Hreach. apply (no_deadlock rs ts Hr). exact (Inv_reach rs ts0 ts (Inv_init rs ts0 H0) Hreach). Qed.
