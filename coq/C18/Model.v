(* C18: the defined-name list (sheet.go:SetDefinedName / DeleteDefinedName / GetDefinedName) and the generic
   law of option structures whose nil fields mean "leave unchanged" (lib.go:setNoPtrFieldsVal and the setters built on it). *)
From VF Require Import Base.Prelude Generated.Consts.

Record dname := mkDn { dn_name : bytes; dn_scope : bytes; dn_ref : bytes }.   (* name case-folded; scope [] = workbook *)

Definition is_nil (l : bytes) : bool := match l with [] => true | _ => false end.
Definition same_key (n s : bytes) (d : dname) : bool := bytes_eqb n (dn_name d) && bytes_eqb s (dn_scope d).

Definition set_name (l : list dname) (n s r : bytes) (scope_valid : bool) : bool * list dname :=
  if is_nil n || is_nil r then (false, l)
  else if negb scope_valid then (false, l)
  else if existsb (same_key n s) l then (false, l)
  else (true, l ++ [mkDn n s r]).

Fixpoint remove_first (n s : bytes) (l : list dname) : list dname :=
  match l with
  | [] => []
  | d :: rest => if same_key n s d then rest else d :: remove_first n s rest
  end.
Definition del_name (l : list dname) (n s : bytes) : bool * list dname :=
  if existsb (same_key n s) l then (true, remove_first n s l) else (false, l).

Fixpoint lookup (n s : bytes) (l : list dname) : option bytes :=
  match l with
  | [] => None
  | d :: rest => if same_key n s d then Some (dn_ref d) else lookup n s rest
  end.

Inductive dnop := DSet (n s r : bytes) (valid : bool) | DDel (n s : bytes).
Definition dstep (l : list dname) (o : dnop) : list dname :=
  match o with DSet n s r v => snd (set_name l n s r v) | DDel n s => snd (del_name l n s) end.
Definition daccept (l : list dname) (o : dnop) : bool :=
  match o with DSet n s r v => fst (set_name l n s r v) | DDel n s => fst (del_name l n s) end.

(* ---- partial-update option structures ---- *)
(* a settings record is a list of fields; an options value supplies some of them *)
Definition override {A} (cur : list A) (opt : list (option A)) : list A :=
  map (fun p => match snd p with Some v => v | None => fst p end) (combine cur opt).
