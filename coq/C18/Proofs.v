From VF Require Import Base.Prelude Generated.Consts C18.Model.
From Coq Require Import ZifyBool ZifyNat.

Lemma bytes_eqb_eq a : forall b, bytes_eqb a b = true <-> a = b.
Proof.
  induction a as [|x a IH]; intros [|y b]; cbn; try (split; [discriminate|discriminate]); [tauto|].
  rewrite andb_true_iff, IH, Z.eqb_eq. split; [intros [-> ->]; reflexivity|intros H; inversion H; auto].
Qed.
Lemma same_key_iff n s d : same_key n s d = true <-> n = dn_name d /\ s = dn_scope d.
Proof. unfold same_key. now rewrite andb_true_iff, !bytes_eqb_eq. Qed.

(* keys (name, scope) are unique *)
Definition Uniq (l : list dname) : Prop := NoDup (map (fun d => (dn_name d, dn_scope d)) l).

Lemma existsb_key n s l : existsb (same_key n s) l = true <-> In (n, s) (map (fun d => (dn_name d, dn_scope d)) l).
Proof.
  rewrite existsb_exists, in_map_iff. split.
  - intros (d & Hd & Hk). apply same_key_iff in Hk. destruct Hk as [-> ->]. eauto.
  - intros (d & Hk & Hd). inversion Hk; subst. exists d. split; [assumption|]. apply same_key_iff. auto.
Qed.

Lemma lookup_none n s l : existsb (same_key n s) l = false -> lookup n s l = None.
Proof. induction l as [|d l IH]; cbn; [reflexivity|]. destruct (same_key n s d); cbn; [discriminate|exact IH]. Qed.

Lemma lookup_app_new n s r l n' s' : existsb (same_key n s) l = false ->
  lookup n' s' (l ++ [mkDn n s r]) = match lookup n' s' l with Some x => Some x | None => if same_key n' s' (mkDn n s r) then Some r else None end.
Proof. intros _. induction l as [|d l IH]; cbn; [destruct (same_key n' s' _); reflexivity|]. destruct (same_key n' s' d); [reflexivity|exact IH]. Qed.

Theorem set_name_spec l n s r v : Uniq l ->
  let '(ok, l') := set_name l n s r v in
  Uniq l' /\
  (ok = false -> l' = l) /\
  (ok = true -> lookup n s l' = Some r /\ lookup n s l = None /\
                forall n' s', (n', s') <> (n, s) -> lookup n' s' l' = lookup n' s' l).
Proof.
  intros HU. unfold set_name. destruct (is_nil n || is_nil r); [repeat split; try assumption; discriminate|].
  destruct v; cbn [negb]; [|repeat split; try assumption; discriminate].
  destruct (existsb (same_key n s) l) eqn:E; [repeat split; try assumption; discriminate|].
  split; [|split; [discriminate|]].
  - unfold Uniq. rewrite map_app. cbn.
    assert (Hn : ~ In (n, s) (map (fun d => (dn_name d, dn_scope d)) l)) by (intros Hin; apply existsb_key in Hin; congruence).
    clear E. induction l as [|d l IH]; cbn; [constructor; [intros []|constructor]|].
    inversion HU; subst. constructor.
    + rewrite in_app_iff. intros [H|[H|[]]]; [contradiction|]. apply Hn. left. now symmetry.
    + apply IH; [assumption|]. intros H. apply Hn. now right.
  - intros _. split; [|split].
    + rewrite (lookup_app_new n s r l n s E), (lookup_none n s l E). unfold same_key. cbn.
      now rewrite (proj2 (bytes_eqb_eq n n) eq_refl), (proj2 (bytes_eqb_eq s s) eq_refl).
    + now apply lookup_none.
    + intros n' s' Hne. rewrite (lookup_app_new n s r l n' s' E). destruct (lookup n' s' l); [reflexivity|].
      destruct (same_key n' s' (mkDn n s r)) eqn:Ek; [|reflexivity]. apply same_key_iff in Ek. cbn in Ek. destruct Ek; subst. contradiction.
Qed.

Lemma remove_first_keys n s l : forall k, In k (map (fun d => (dn_name d, dn_scope d)) (remove_first n s l)) -> In k (map (fun d => (dn_name d, dn_scope d)) l).
Proof.
  induction l as [|d l IH]; cbn; intros k Hk; [assumption|]. destruct (same_key n s d); [now right|].
  cbn in Hk. destruct Hk as [<-|Hk]; [now left|right; now apply IH].
Qed.

Theorem del_name_spec l n s : Uniq l ->
  let '(ok, l') := del_name l n s in
  Uniq l' /\
  (ok = false -> l' = l /\ lookup n s l = None) /\
  (ok = true -> lookup n s l' = None /\ length l' = (length l - 1)%nat /\
                forall n' s', (n', s') <> (n, s) -> lookup n' s' l' = lookup n' s' l).
Proof.
  intros HU. unfold del_name. destruct (existsb (same_key n s) l) eqn:E.
  - split; [|split; [discriminate|intros _]].
    + clear E. unfold Uniq in *. induction l as [|d l IH]; cbn; [constructor|]. inversion HU; subst.
      destruct (same_key n s d); [assumption|]. cbn. constructor; [|now apply IH].
      intros Hin. apply H1. now apply (remove_first_keys n s l).
    + split; [|split].
      * clear E. unfold Uniq in HU. induction l as [|d l IH]; cbn; [reflexivity|]. inversion HU; subst.
        destruct (same_key n s d) eqn:Ek.
        -- apply same_key_iff in Ek. destruct Ek; subst. apply lookup_none.
           destruct (existsb (same_key (dn_name d) (dn_scope d)) l) eqn:E2; [|reflexivity]. apply existsb_key in E2. contradiction.
        -- cbn. rewrite Ek. now apply IH.
      * clear HU. induction l as [|d l IH]; cbn in *; [discriminate|]. destruct (same_key n s d); cbn in *; [lia|].
        rewrite (IH E). destruct l; cbn in *; [discriminate|lia].
      * intros n' s' Hne. clear E HU. induction l as [|d l IH]; cbn; [reflexivity|].
        destruct (same_key n s d) eqn:Ek.
        -- destruct (same_key n' s' d) eqn:Ek'; [|reflexivity]. apply same_key_iff in Ek, Ek'. destruct Ek, Ek'; subst. contradiction.
        -- cbn. destruct (same_key n' s' d); [reflexivity|exact IH].
  - split; [assumption|]. split; [intros _; split; [reflexivity|now apply lookup_none]|discriminate].
Qed.

Theorem dstep_uniq ops : forall l, Uniq l -> Uniq (fold_left dstep ops l).
Proof.
  induction ops as [|o ops IH]; intros l HU; cbn [fold_left]; [assumption|]. apply IH.
  destruct o as [n s r v|n s]; cbn [dstep].
  - pose proof (set_name_spec l n s r v HU) as H. destruct (set_name l n s r v). apply H.
  - pose proof (del_name_spec l n s HU) as H. destruct (del_name l n s). apply H.
Qed.

(* ---- partial update: supplied fields read back, the others keep their value ---- *)
Theorem override_spec {A} (cur : list A) (opt : list (option A)) (d : A) : length cur = length opt ->
  length (override cur opt) = length cur /\
  forall i, (i < length cur)%nat ->
    nth i (override cur opt) d = match nth i opt None with Some v => v | None => nth i cur d end.
Proof.
  revert opt. induction cur as [|c cur IH]; intros [|o opt] Hl; cbn in Hl; try discriminate; cbn [override combine map length].
  - split; [reflexivity|intros i Hi; cbn in Hi; lia].
  - injection Hl as Hl. destruct (IH opt Hl) as [G1 G2]. unfold override in *. split; [cbn; now rewrite G1|].
    intros [|i] Hi; cbn [nth fst snd]; [reflexivity|]. apply G2. cbn in Hi. lia.
Qed.
