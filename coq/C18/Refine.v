(* C18, refinement of the defined-name list to the simplest specification - a partial map from (name, scope) to the
   reference - over every history of SetDefinedName / DeleteDefinedName calls (accepted or refused): GetDefinedName
   reads what the map holds, so an item reads back as set after any number of unrelated edits, and deleting removes
   exactly that item. *)
From VF Require Import Base.Prelude Generated.Consts C18.Model C18.Proofs.

Definition amap := bytes -> bytes -> option bytes.
Definition aempty : amap := fun _ _ => None.
Definition key_eqb (n s n' s' : bytes) : bool := bytes_eqb n n' && bytes_eqb s s'.

Definition astep (m : amap) (o : dnop) : amap :=
  match o with
  | DSet n s r v =>
    if is_nil n || is_nil r then m else if negb v then m
    else match m n s with
         | Some _ => m                                   (* the name exists in that scope: refused *)
         | None => fun n' s' => if key_eqb n s n' s' then Some r else m n' s'
         end
  | DDel n s => fun n' s' => if key_eqb n s n' s' then None else m n' s'
  end.

Lemma key_eqb_iff n s n' s' : key_eqb n s n' s' = true <-> (n', s') = (n, s).
Proof.
  unfold key_eqb. rewrite andb_true_iff, !bytes_eqb_eq. split; [intros [-> ->]; reflexivity|intros H; inversion H; auto].
Qed.

Lemma lookup_some n s l : existsb (same_key n s) l = true -> exists r, lookup n s l = Some r.
Proof.
  induction l as [|d l IH]; cbn [existsb lookup]; [discriminate|].
  destruct (same_key n s d); [intros _; eauto|]. exact IH.
Qed.

Lemma dstep_refines l m o : Uniq l -> (forall n s, lookup n s l = m n s) ->
  Uniq (dstep l o) /\ forall n s, lookup n s (dstep l o) = astep m o n s.
Proof.
  intros HU HR. destruct o as [n s r v|n s]; cbn [dstep astep].
  - pose proof (set_name_spec l n s r v HU) as SP. unfold set_name in *.
    destruct (is_nil n || is_nil r); [cbn [snd]; auto|].
    destruct (negb v); [cbn [snd]; auto|].
    destruct (existsb (same_key n s) l) eqn:E.
    + cbn [snd]. destruct (lookup_some _ _ _ E) as [r0 Hr0]. rewrite <- HR, Hr0. auto.
    + cbn [snd]. destruct SP as (U' & _ & Hok). destruct (Hok eq_refl) as (H1 & H2 & H3).
      split; [exact U'|]. rewrite <- HR, H2. intros n' s'.
      destruct (key_eqb n s n' s') eqn:K.
      * apply key_eqb_iff in K. inversion K; subst. exact H1.
      * rewrite H3; [apply HR|]. intros Hk. apply key_eqb_iff in Hk. congruence.
  - pose proof (del_name_spec l n s HU) as SP. unfold del_name in *.
    destruct (existsb (same_key n s) l) eqn:E; cbn [snd].
    + destruct SP as (U' & _ & Hok). destruct (Hok eq_refl) as (H1 & _ & H3).
      split; [exact U'|]. intros n' s'. destruct (key_eqb n s n' s') eqn:K.
      * apply key_eqb_iff in K. inversion K; subst. exact H1.
      * rewrite H3; [apply HR|]. intros Hk. apply key_eqb_iff in Hk. congruence.
    + destruct SP as (U' & Hno & _). destruct (Hno eq_refl) as [_ Hn].
      split; [exact HU|]. intros n' s'. destruct (key_eqb n s n' s') eqn:K.
      * apply key_eqb_iff in K. inversion K; subst. exact Hn.
      * apply HR.
Qed.

Theorem names_refine_map ops : forall n s, lookup n s (fold_left dstep ops []) = fold_left astep ops aempty n s.
Proof.
  assert (G : forall l m, Uniq l -> (forall n s, lookup n s l = m n s) ->
              forall n s, lookup n s (fold_left dstep ops l) = fold_left astep ops m n s).
  { induction ops as [|o ops IH]; intros l m HU HR; cbn [fold_left]; [exact HR|].
    destruct (dstep_refines l m o HU HR) as [U' R']. now apply IH. }
  apply G; [constructor|reflexivity].
Qed.
